//! Exploration engines.
//!
//! * `explore` — stateless history exploration (seqx): all event sequences up
//!   to a depth (`Plan::Full`) or all sequences with at most k deviations from
//!   a default symbol up to a larger depth (`Plan::Dev`). The real code is
//!   called on every edge, the oracle on every step.
//! * `bfs` — explicit-state breadth-first search with canonical-key
//!   de-duplication (statex).
//!
//! Both run the *real* implementation inside `Model::step`; nothing here is a
//! model of srtla_send.

use std::collections::{HashMap, HashSet};
use std::panic::{AssertUnwindSafe, catch_unwind};
use std::sync::Mutex;
use std::sync::atomic::{AtomicBool, AtomicU64, AtomicUsize, Ordering};
use std::time::{Duration, Instant};

use serde_json::{Value, json};

use crate::evidence::{Report, Violation};

#[derive(Clone, Debug)]
pub struct Fail {
    pub key: String,
    pub msg: String,
}

impl Fail {
    pub fn new(key: &str, msg: String) -> Self {
        Self {
            key: key.to_string(),
            msg,
        }
    }
}

thread_local! {
    static PREFIX_FAIL: std::cell::RefCell<Option<Fail>> = const { std::cell::RefCell::new(None) };
}

/// An oracle failure inside the scripted prefix that builds a start state is a violation like any
/// other (found on a scripted history): `Model::init` reports it here instead of panicking, and the
/// engines turn it into a violation with an empty path for that start state.
pub fn prefix_fail(f: Fail) {
    PREFIX_FAIL.with(|p| {
        let mut p = p.borrow_mut();
        if p.is_none() {
            *p = Some(f);
        }
    });
}

pub fn take_prefix_fail() -> Option<Fail> {
    PREFIX_FAIL.with(|p| p.borrow_mut().take())
}

pub trait Model: Sync {
    /// Explored state: the real objects (cloned at each branch) plus the
    /// oracle's own memory.
    type S: Clone;
    /// Per-thread resources (runtime, sockets); `()` for pure-core models.
    type W;

    fn worker(&self) -> Self::W;
    fn n_inits(&self) -> usize;
    fn init_name(&self, i: usize) -> String;
    fn init(&self, w: &mut Self::W, i: usize) -> Self::S;
    fn n_events(&self) -> usize;
    fn event_name(&self, e: usize) -> String;
    fn enabled(&self, _s: &Self::S, _e: usize) -> bool {
        true
    }
    /// Apply event `e` by calling the real code, then evaluate the oracle.
    fn step(&self, w: &mut Self::W, s: &mut Self::S, e: usize) -> Result<(), Fail>;
    /// Hash of the oracle-relevant observation of `s` (distinct-state count).
    fn fingerprint(&self, s: &Self::S) -> u64;
    /// Optional end-of-sequence check.
    fn at_end(&self, _w: &mut Self::W, _s: &Self::S) -> Result<(), Fail> {
        Ok(())
    }
}

#[derive(Clone)]
pub enum Plan {
    /// all sequences of length <= depth
    Full { depth: usize },
    /// `default(pos)` at every position up to `depth`, at most `k` positions
    /// carry any other enabled symbol
    Dev {
        k: usize,
        depth: usize,
        default: std::sync::Arc<dyn Fn(usize) -> usize + Send + Sync>,
    },
}

impl Plan {
    pub fn describe(&self) -> String {
        match self {
            Plan::Full { depth } => format!("full({depth})"),
            Plan::Dev { k, depth, .. } => format!("dev({k},{depth})"),
        }
    }
}

pub struct Limits {
    pub threads: usize,
    pub wall: Duration,
    /// stop recording distinct fingerprints beyond this many (count becomes a lower bound)
    pub max_fingerprints: usize,
    /// stop the whole exploration after this many violating executions
    pub max_fails: u64,
}

impl Default for Limits {
    fn default() -> Self {
        Self {
            threads: std::env::var("VERIF_THREADS")
                .ok()
                .and_then(|s| s.parse().ok())
                .unwrap_or_else(|| {
                    std::thread::available_parallelism()
                        .map(|n| n.get())
                        .unwrap_or(8)
                        .min(16)
                }),
            wall: Duration::from_secs(3600),
            max_fingerprints: 32_000_000,
            max_fails: 200_000,
        }
    }
}

struct Shared {
    stop: AtomicBool,
    cap_hit: AtomicBool,
    fails_total: AtomicU64,
    deadline: Instant,
    max_fails: u64,
}

#[derive(Default)]
struct Local {
    steps: u64,
    seqs: u64,
    max_depth: usize,
    fps: HashSet<u64>,
    fails: Vec<(usize, Vec<usize>, Fail)>,
    fail_counts: HashMap<String, u64>,
    samples: Vec<(usize, Vec<usize>)>,
}

fn do_step<M: Model>(m: &M, w: &mut M::W, s: &mut M::S, e: usize) -> Result<(), Fail> {
    match catch_unwind(AssertUnwindSafe(|| m.step(w, s, e))) {
        Ok(r) => r,
        Err(p) => {
            let msg = if let Some(s) = p.downcast_ref::<String>() {
                s.clone()
            } else if let Some(s) = p.downcast_ref::<&str>() {
                s.to_string()
            } else {
                "panic".to_string()
            };
            Err(Fail::new("panic", format!("panic in real code or oracle: {msg}")))
        }
    }
}

fn record_fail(l: &mut Local, sh: &Shared, init: usize, path: &[usize], f: Fail) {
    *l.fail_counts.entry(f.key.clone()).or_insert(0) += 1;
    let kept = l.fails.iter().filter(|x| x.2.key == f.key).count();
    if kept < 3 {
        l.fails.push((init, path.to_vec(), f));
    }
    let n = sh.fails_total.fetch_add(1, Ordering::Relaxed) + 1;
    if n >= sh.max_fails {
        sh.cap_hit.store(true, Ordering::Relaxed);
        sh.stop.store(true, Ordering::Relaxed);
    }
}

#[allow(clippy::too_many_arguments)]
fn dfs<M: Model>(
    m: &M,
    w: &mut M::W,
    plan: &Plan,
    sh: &Shared,
    l: &mut Local,
    init: usize,
    s: &M::S,
    path: &mut Vec<usize>,
    devs_used: usize,
    max_fp: usize,
) {
    if sh.stop.load(Ordering::Relaxed) {
        return;
    }
    let depth = path.len();
    if depth > l.max_depth {
        l.max_depth = depth;
    }
    let (limit, k, default) = match plan {
        Plan::Full { depth } => (*depth, usize::MAX, None),
        Plan::Dev { k, depth, default } => (*depth, *k, Some(default)),
    };
    if depth >= limit {
        l.seqs += 1;
        if l.samples.len() < 2 {
            l.samples.push((init, path.clone()));
        }
        if let Err(f) = m.at_end(w, s) {
            record_fail(l, sh, init, path, f);
        }
        return;
    }
    if (l.steps & 0xfff) == 0 && Instant::now() > sh.deadline {
        sh.cap_hit.store(true, Ordering::Relaxed);
        sh.stop.store(true, Ordering::Relaxed);
        return;
    }
    let def = default.map(|d| d(depth));
    let mut any = false;
    for e in 0..m.n_events() {
        let is_dev = match def {
            Some(d) => e != d,
            None => false,
        };
        if is_dev && devs_used >= k {
            continue;
        }
        if !m.enabled(s, e) {
            continue;
        }
        any = true;
        let mut s2 = s.clone();
        path.push(e);
        l.steps += 1;
        match do_step(m, w, &mut s2, e) {
            Ok(()) => {
                if l.fps.len() < max_fp {
                    l.fps.insert(m.fingerprint(&s2));
                }
                dfs(
                    m,
                    w,
                    plan,
                    sh,
                    l,
                    init,
                    &s2,
                    path,
                    devs_used + is_dev as usize,
                    max_fp,
                );
            }
            Err(f) => {
                l.seqs += 1;
                record_fail(l, sh, init, path, f);
            }
        }
        path.pop();
        if sh.stop.load(Ordering::Relaxed) {
            return;
        }
    }
    if !any {
        l.seqs += 1;
    }
}

/// Result of one `explore` call.
pub struct Explored {
    pub steps: u64,
    pub seqs: u64,
    pub distinct: u64,
    pub max_depth: usize,
    pub cap_hit: bool,
    pub fails: Vec<(usize, Vec<usize>, Fail)>,
    pub fail_counts: HashMap<String, u64>,
    pub samples: Vec<(usize, Vec<usize>)>,
    pub wall_s: f64,
}

/// Explore `plan` from every initial state of `m`, in parallel. Work items are
/// (initial state, first symbol[, second symbol]); each worker thread owns its
/// own `M::W`.
pub fn explore<M: Model>(m: &M, plan: &Plan, lim: &Limits) -> Explored {
    let t0 = Instant::now();
    let sh = Shared {
        stop: AtomicBool::new(false),
        cap_hit: AtomicBool::new(false),
        fails_total: AtomicU64::new(0),
        deadline: t0 + lim.wall,
        max_fails: lim.max_fails,
    };
    // work items: prefixes of length 1 or 2
    let ne = m.n_events();
    let limit = match plan {
        Plan::Full { depth } => *depth,
        Plan::Dev { depth, .. } => *depth,
    };
    let split = if limit >= 3 && m.n_inits() * ne < lim.threads * 4 {
        2
    } else if limit >= 1 {
        1
    } else {
        0
    };
    let mut items: Vec<(usize, Vec<usize>)> = Vec::new();
    if let Plan::Dev { k, depth, default } = plan {
        // split on the position and symbol of the first deviation: the
        // all-default path, then (defaults[0..pos], e) for every pos and e
        for i in 0..m.n_inits() {
            items.push((i, (0..*depth).map(|p| default(p)).collect()));
            if *k >= 1 {
                for pos in 0..*depth {
                    for e in 0..ne {
                        if e == default(pos) {
                            continue;
                        }
                        let mut pre: Vec<usize> = (0..pos).map(|p| default(p)).collect();
                        pre.push(e);
                        items.push((i, pre));
                    }
                }
            }
        }
        // big subtrees (early deviations) first
        items.sort_by_key(|it| it.1.len());
    } else {
        for i in 0..m.n_inits() {
            match split {
                0 => items.push((i, vec![])),
                1 => {
                    for a in 0..ne {
                        items.push((i, vec![a]));
                    }
                }
                _ => {
                    for a in 0..ne {
                        for b in 0..ne {
                            items.push((i, vec![a, b]));
                        }
                    }
                }
            }
        }
    }
    let next = AtomicUsize::new(0);
    let results: Mutex<Vec<Local>> = Mutex::new(Vec::new());
    let root_done: Mutex<HashSet<(usize, Vec<usize>)>> = Mutex::new(HashSet::new());
    let nthreads = lim.threads.max(1).min(items.len().max(1));
    std::thread::scope(|scope| {
        for _ in 0..nthreads {
            scope.spawn(|| {
                let mut w = m.worker();
                let mut l = Local::default();
                let mut init_cache: HashMap<usize, M::S> = HashMap::new();
                let mut init_failed: HashSet<usize> = HashSet::new();
                loop {
                    if sh.stop.load(Ordering::Relaxed) {
                        break;
                    }
                    let idx = next.fetch_add(1, Ordering::Relaxed);
                    if idx >= items.len() {
                        break;
                    }
                    let (init, prefix) = &items[idx];
                    if !init_cache.contains_key(init) {
                        let _ = take_prefix_fail();
                        let s = m.init(&mut w, *init);
                        if let Some(f) = take_prefix_fail() {
                            init_failed.insert(*init);
                            if root_done.lock().unwrap().insert((*init, vec![usize::MAX])) {
                                l.seqs += 1;
                                record_fail(&mut l, &sh, *init, &[], f);
                            }
                        }
                        init_cache.insert(*init, s);
                    }
                    if init_failed.contains(init) {
                        continue;
                    }
                    let s0 = init_cache.get(init).unwrap().clone();
                    // replay the prefix; interior nodes are judged by whichever
                    // worker gets there first (root_done), so nothing is
                    // counted or reported twice
                    let mut s = s0;
                    let mut path: Vec<usize> = Vec::new();
                    let mut devs = 0usize;
                    let mut ok = true;
                    for (pos, &e) in prefix.iter().enumerate() {
                        let is_dev = match plan {
                            Plan::Dev { default, .. } => default(pos) != e,
                            _ => false,
                        };
                        let kmax = match plan {
                            Plan::Dev { k, .. } => *k,
                            _ => usize::MAX,
                        };
                        if (is_dev && devs >= kmax) || !m.enabled(&s, e) {
                            ok = false;
                            break;
                        }
                        devs += is_dev as usize;
                        path.push(e);
                        let first = root_done
                            .lock()
                            .unwrap()
                            .insert((*init, path.clone()));
                        match do_step(m, &mut w, &mut s, e) {
                            Ok(()) => {
                                if first {
                                    l.steps += 1;
                                    if l.fps.len() < lim.max_fingerprints {
                                        l.fps.insert(m.fingerprint(&s));
                                    }
                                }
                            }
                            Err(f) => {
                                if first {
                                    l.steps += 1;
                                    l.seqs += 1;
                                    record_fail(&mut l, &sh, *init, &path, f);
                                }
                                ok = false;
                                break;
                            }
                        }
                    }
                    if !ok {
                        continue;
                    }
                    dfs(
                        m,
                        &mut w,
                        plan,
                        &sh,
                        &mut l,
                        *init,
                        &s,
                        &mut path,
                        devs,
                        lim.max_fingerprints / nthreads.max(1),
                    );
                }
                results.lock().unwrap().push(l);
            });
        }
    });
    let locals = results.into_inner().unwrap();
    let mut out = Explored {
        steps: 0,
        seqs: 0,
        distinct: 0,
        max_depth: 0,
        cap_hit: sh.cap_hit.load(Ordering::Relaxed),
        fails: Vec::new(),
        fail_counts: HashMap::new(),
        samples: Vec::new(),
        wall_s: 0.0,
    };
    let mut all_fp: HashSet<u64> = HashSet::new();
    for l in locals {
        out.steps += l.steps;
        out.seqs += l.seqs;
        out.max_depth = out.max_depth.max(l.max_depth);
        all_fp.extend(l.fps);
        out.fails.extend(l.fails);
        for (k, n) in l.fail_counts {
            *out.fail_counts.entry(k).or_insert(0) += n;
        }
        if out.samples.len() < 3 {
            out.samples.extend(l.samples);
        }
    }
    // shortest counterexamples first
    out.fails.sort_by_key(|f| (f.1.len(), f.0, f.1.clone()));
    out.distinct = all_fp.len() as u64;
    out.wall_s = t0.elapsed().as_secs_f64();
    out
}

/// Re-run one path from an initial state without the explorer. Returns the
/// failure (if any) and the step index at which it occurred.
pub fn replay<M: Model>(m: &M, init: usize, path: &[usize]) -> Option<(usize, Fail)> {
    let mut w = m.worker();
    let _ = take_prefix_fail();
    let mut s = m.init(&mut w, init);
    if let Some(f) = take_prefix_fail() {
        return Some((0, f));
    }
    for (i, &e) in path.iter().enumerate() {
        if let Err(f) = do_step(m, &mut w, &mut s, e) {
            return Some((i, f));
        }
    }
    if let Err(f) = m.at_end(&mut w, &s) {
        return Some((path.len(), f));
    }
    None
}

pub fn path_names<M: Model>(m: &M, path: &[usize]) -> Vec<String> {
    path.iter().map(|&e| m.event_name(e)).collect()
}

/// Fold an exploration into the report: coverage counters, samples, and every
/// failure after confirming that it reproduces on two independent replays
/// (a failure that does not reproduce is a machinery error, not a verdict).
pub fn fold<M: Model>(rep: &mut Report, m: &M, label: &str, plan: &Plan, ex: Explored) {
    rep.states += ex.distinct;
    rep.transitions += ex.steps;
    rep.traces += ex.seqs;
    if ex.cap_hit {
        rep.exhaustive = false;
    }
    let runs = rep
        .extra
        .entry("explorations".to_string())
        .or_insert_with(|| json!([]));
    if let Value::Array(a) = runs {
        a.push(json!({
            "name": label,
            "plan": plan.describe(),
            "inits": m.n_inits(),
            "alphabet_size": m.n_events(),
            "sequences": ex.seqs,
            "steps": ex.steps,
            "distinct_observations": ex.distinct,
            "max_depth": ex.max_depth,
            "cap_hit": ex.cap_hit,
            "wall_s": (ex.wall_s * 100.0).round() / 100.0,
        }));
    }
    for (init, path) in ex.samples.iter().take(2) {
        if rep.samples.len() < 10 {
            rep.samples.push(json!({
                "exploration": label,
                "init": m.init_name(*init),
                "events": path_names(m, path),
            }));
        }
    }
    let mut seen_keys: HashMap<String, usize> = HashMap::new();
    for (init, path, f) in ex.fails {
        let n = seen_keys.entry(f.key.clone()).or_insert(0);
        if *n >= 3 {
            continue;
        }
        *n += 1;
        let r1 = replay(m, init, &path);
        let r2 = replay(m, init, &path);
        let same = match (&r1, &r2) {
            (Some((i1, f1)), Some((i2, f2))) => i1 == i2 && f1.key == f2.key && f1.key == f.key,
            _ => false,
        };
        if !same {
            rep.machinery_errors.push(format!(
                "{label}: failure [{}] at init {} path {:?} did not reproduce identically on two replays (r1={:?}, r2={:?})",
                f.key,
                m.init_name(init),
                path_names(m, &path),
                r1.map(|x| x.1.key),
                r2.map(|x| x.1.key)
            ));
            continue;
        }
        rep.violations.push(Violation {
            key: f.key.clone(),
            message: f.msg.clone(),
            replay: json!({
                "exploration": label,
                "init": init,
                "init_name": m.init_name(init),
                "path": path,
                "events": path_names(m, &path),
            }),
        });
    }
    for (k, n) in ex.fail_counts {
        *rep.violation_counts.entry(k).or_insert(0) += n;
    }
}

// ---------------------------------------------------------------------------
// explicit-state BFS

pub trait Canon: Model {
    /// Canonical key: two states with equal keys must have the same futures
    /// for the property at hand (argued per check in DESIGN.md).
    fn canon(&self, s: &Self::S) -> Vec<u8>;
}

fn fp128(bytes: &[u8]) -> u128 {
    use std::hash::{Hash, Hasher};
    let mut h1 = std::collections::hash_map::DefaultHasher::new();
    0xA5u8.hash(&mut h1);
    bytes.hash(&mut h1);
    let mut h2 = rustc_hash::FxHasher::default();
    0x5Au8.hash(&mut h2);
    bytes.hash(&mut h2);
    ((h1.finish() as u128) << 64) | (h2.finish() as u128)
}

pub struct BfsResult {
    pub states: u64,
    pub transitions: u64,
    pub depth_reached: usize,
    pub frontier_empty: bool,
    pub cap_hit: bool,
    pub fails: Vec<(usize, Vec<usize>, Fail)>,
    pub fail_counts: HashMap<String, u64>,
    pub samples: Vec<(usize, Vec<usize>)>,
    pub wall_s: f64,
    /// states per BFS level
    pub levels: Vec<u64>,
}

/// The same search with a frontier of *paths* instead of states: a state is rebuilt by replaying its
/// path from the start state whenever it is expanded. Memory is a few bytes per frontier entry instead
/// of a whole real world; the price is one replay (depth steps) per expanded state.
pub fn bfs_lowmem<M: Canon>(m: &M, w: &mut M::W, init: usize, max_depth: usize, max_states: usize, wall: Duration) -> BfsResult {
    let t0 = Instant::now();
    let mut seen: HashSet<u128> = HashSet::new();
    let s0 = m.init(w, init);
    seen.insert(fp128(&m.canon(&s0)));
    let mut frontier: Vec<Vec<u16>> = vec![Vec::new()];
    let mut res = BfsResult {
        states: 1,
        transitions: 0,
        depth_reached: 0,
        frontier_empty: false,
        cap_hit: false,
        fails: Vec::new(),
        fail_counts: HashMap::new(),
        samples: Vec::new(),
        wall_s: 0.0,
        levels: vec![1],
    };
    let ne = m.n_events();
    assert!(ne < 65536);
    'outer: for depth in 0..max_depth {
        let mut next: Vec<Vec<u16>> = Vec::new();
        for path in frontier.iter() {
            // rebuild the state (every step of the path succeeded when it was first taken)
            let mut s = s0.clone();
            let mut ok = true;
            for &e in path.iter() {
                if do_step(m, w, &mut s, e as usize).is_err() {
                    ok = false;
                    break;
                }
            }
            if !ok {
                continue;
            }
            for e in 0..ne {
                if !m.enabled(&s, e) {
                    continue;
                }
                let mut s2 = s.clone();
                res.transitions += 1;
                match do_step(m, w, &mut s2, e) {
                    Ok(()) => {
                        let k = fp128(&m.canon(&s2));
                        if seen.insert(k) {
                            res.states += 1;
                            let mut p2 = path.clone();
                            p2.push(e as u16);
                            if res.samples.len() < 2 && p2.len() >= 3 {
                                res.samples.push((init, p2.iter().map(|&x| x as usize).collect()));
                            }
                            next.push(p2);
                        }
                    }
                    Err(f) => {
                        *res.fail_counts.entry(f.key.clone()).or_insert(0) += 1;
                        let kept = res.fails.iter().filter(|x| x.2.key == f.key).count();
                        if kept < 3 {
                            let mut p2: Vec<usize> = path.iter().map(|&x| x as usize).collect();
                            p2.push(e);
                            res.fails.push((init, p2, f));
                        }
                    }
                }
            }
            if seen.len() >= max_states || t0.elapsed() > wall {
                res.cap_hit = true;
                res.depth_reached = depth;
                break 'outer;
            }
        }
        res.depth_reached = depth + 1;
        res.levels.push(next.len() as u64);
        if next.is_empty() {
            res.frontier_empty = true;
            break;
        }
        frontier = next;
    }
    res.wall_s = t0.elapsed().as_secs_f64();
    res
}

/// Single-threaded BFS from one initial state (parallelism is across
/// configurations, by the caller). Keys are 128-bit fingerprints of the
/// canonical key bytes.
pub fn bfs<M: Canon>(
    m: &M,
    w: &mut M::W,
    init: usize,
    max_depth: usize,
    max_states: usize,
    wall: Duration,
) -> BfsResult {
    let t0 = Instant::now();
    let mut seen: HashSet<u128> = HashSet::new();
    let s0 = m.init(w, init);
    seen.insert(fp128(&m.canon(&s0)));
    let mut frontier: Vec<(M::S, Vec<u16>)> = vec![(s0, Vec::new())];
    let mut res = BfsResult {
        states: 1,
        transitions: 0,
        depth_reached: 0,
        frontier_empty: false,
        cap_hit: false,
        fails: Vec::new(),
        fail_counts: HashMap::new(),
        samples: Vec::new(),
        wall_s: 0.0,
        levels: vec![1],
    };
    let ne = m.n_events();
    assert!(ne < 65536);
    'outer: for depth in 0..max_depth {
        let mut next: Vec<(M::S, Vec<u16>)> = Vec::new();
        for (s, path) in frontier.iter() {
            for e in 0..ne {
                if !m.enabled(s, e) {
                    continue;
                }
                let mut s2 = s.clone();
                res.transitions += 1;
                let mut p2 = path.clone();
                p2.push(e as u16);
                match do_step(m, w, &mut s2, e) {
                    Ok(()) => {
                        let k = fp128(&m.canon(&s2));
                        if seen.insert(k) {
                            res.states += 1;
                            if res.samples.len() < 2 && p2.len() >= 3 {
                                res.samples
                                    .push((init, p2.iter().map(|&x| x as usize).collect()));
                            }
                            next.push((s2, p2));
                        }
                    }
                    Err(f) => {
                        *res.fail_counts.entry(f.key.clone()).or_insert(0) += 1;
                        let kept = res.fails.iter().filter(|x| x.2.key == f.key).count();
                        if kept < 3 {
                            res.fails
                                .push((init, p2.iter().map(|&x| x as usize).collect(), f));
                        }
                    }
                }
            }
            if seen.len() >= max_states || t0.elapsed() > wall {
                res.cap_hit = true;
                res.depth_reached = depth;
                break 'outer;
            }
        }
        res.depth_reached = depth + 1;
        res.levels.push(next.len() as u64);
        if next.is_empty() {
            res.frontier_empty = true;
            break;
        }
        frontier = next;
    }
    res.wall_s = t0.elapsed().as_secs_f64();
    res
}

/// Level-synchronous parallel BFS for models whose states can cross threads
/// (pure-core models). Same result set as `bfs`; each thread owns its `M::W`.
pub fn bfs_par<M: Canon>(
    m: &M,
    init: usize,
    max_depth: usize,
    max_states: usize,
    wall: Duration,
    threads: usize,
) -> BfsResult
where
    M::S: Send + Sync,
{
    let t0 = Instant::now();
    let mut seen: HashSet<u128> = HashSet::new();
    let s0 = {
        let mut w = m.worker();
        m.init(&mut w, init)
    };
    seen.insert(fp128(&m.canon(&s0)));
    let mut frontier: Vec<(M::S, Vec<u16>)> = vec![(s0, Vec::new())];
    let mut res = BfsResult {
        states: 1,
        transitions: 0,
        depth_reached: 0,
        frontier_empty: false,
        cap_hit: false,
        fails: Vec::new(),
        fail_counts: HashMap::new(),
        samples: Vec::new(),
        wall_s: 0.0,
        levels: vec![1],
    };
    let ne = m.n_events();
    assert!(ne < 65536);
    for depth in 0..max_depth {
        let nt = threads.max(1).min(frontier.len().max(1));
        let chunk = frontier.len().div_ceil(nt);
        type Out<S> = (
            Vec<(u128, S, Vec<u16>)>,
            u64,
            Vec<(Vec<usize>, Fail)>,
            HashMap<String, u64>,
        );
        let seen_ref = &seen;
        let frontier_ref = &frontier;
        let outs: Vec<Out<M::S>> = par_map(nt, nt, |ti| {
            let mut w = m.worker();
            let mut local_seen: HashSet<u128> = HashSet::new();
            let mut out = Vec::new();
            let mut trans = 0u64;
            let mut fails: Vec<(Vec<usize>, Fail)> = Vec::new();
            let mut fc: HashMap<String, u64> = HashMap::new();
            let lo = (ti * chunk).min(frontier_ref.len());
            let hi = ((ti + 1) * chunk).min(frontier_ref.len());
            for (s, path) in &frontier_ref[lo..hi] {
                for e in 0..ne {
                    if !m.enabled(s, e) {
                        continue;
                    }
                    let mut s2 = s.clone();
                    trans += 1;
                    match do_step(m, &mut w, &mut s2, e) {
                        Ok(()) => {
                            let k = fp128(&m.canon(&s2));
                            if !seen_ref.contains(&k) && local_seen.insert(k) {
                                let mut p2 = path.clone();
                                p2.push(e as u16);
                                out.push((k, s2, p2));
                            }
                        }
                        Err(f) => {
                            *fc.entry(f.key.clone()).or_insert(0) += 1;
                            if fails.iter().filter(|x| x.1.key == f.key).count() < 3 {
                                let mut p2: Vec<usize> = path.iter().map(|&x| x as usize).collect();
                                p2.push(e);
                                fails.push((p2, f));
                            }
                        }
                    }
                }
                if t0.elapsed() > wall {
                    break;
                }
            }
            (out, trans, fails, fc)
        });
        let mut next: Vec<(M::S, Vec<u16>)> = Vec::new();
        for (out, trans, fails, fc) in outs {
            res.transitions += trans;
            for (k, s2, p2) in out {
                if seen.insert(k) {
                    res.states += 1;
                    if res.samples.len() < 2 && p2.len() >= 3 {
                        res.samples.push((init, p2.iter().map(|&x| x as usize).collect()));
                    }
                    next.push((s2, p2));
                }
            }
            for (p, f) in fails {
                if res.fails.iter().filter(|x| x.2.key == f.key).count() < 3 {
                    res.fails.push((init, p, f));
                }
            }
            for (k, n) in fc {
                *res.fail_counts.entry(k).or_insert(0) += n;
            }
        }
        if seen.len() >= max_states || t0.elapsed() > wall {
            res.cap_hit = true;
            res.depth_reached = depth;
            res.levels.push(next.len() as u64);
            break;
        }
        res.depth_reached = depth + 1;
        res.levels.push(next.len() as u64);
        if next.is_empty() {
            res.frontier_empty = true;
            break;
        }
        frontier = next;
    }
    res.fails.sort_by_key(|f| f.1.len());
    res.wall_s = t0.elapsed().as_secs_f64();
    res
}

pub fn fold_bfs<M: Canon>(rep: &mut Report, m: &M, label: &str, r: BfsResult) {
    rep.states += r.states;
    rep.transitions += r.transitions;
    rep.traces += r.transitions; // every explored edge is one real execution step from a reached state
    if r.cap_hit {
        rep.exhaustive = false;
    }
    let runs = rep
        .extra
        .entry("explorations".to_string())
        .or_insert_with(|| json!([]));
    if let Value::Array(a) = runs {
        a.push(json!({
            "name": label,
            "plan": "bfs",
            "states": r.states,
            "transitions": r.transitions,
            "depth_reached": r.depth_reached,
            "fixpoint": r.frontier_empty,
            "cap_hit": r.cap_hit,
            "levels": r.levels,
            "wall_s": (r.wall_s * 100.0).round() / 100.0,
        }));
    }
    for (init, path) in r.samples.iter().take(1) {
        if rep.samples.len() < 10 {
            rep.samples.push(json!({
                "exploration": label,
                "init": m.init_name(*init),
                "events": path_names(m, path),
            }));
        }
    }
    for (init, path, f) in r.fails {
        let r1 = replay(m, init, &path);
        let r2 = replay(m, init, &path);
        let same = match (&r1, &r2) {
            (Some((i1, f1)), Some((i2, f2))) => i1 == i2 && f1.key == f2.key && f1.key == f.key,
            _ => false,
        };
        if !same {
            rep.machinery_errors.push(format!(
                "{label}: failure [{}] at init {} path {:?} did not reproduce identically on two replays",
                f.key,
                m.init_name(init),
                path_names(m, &path)
            ));
            continue;
        }
        rep.violations.push(Violation {
            key: f.key.clone(),
            message: f.msg.clone(),
            replay: json!({
                "exploration": label,
                "init": init,
                "init_name": m.init_name(init),
                "path": path,
                "events": path_names(m, &path),
            }),
        });
    }
    for (k, n) in r.fail_counts {
        *rep.violation_counts.entry(k).or_insert(0) += n;
    }
}

/// Run `f(i)` for i in 0..n on up to `threads` threads, collecting results in order.
pub fn par_map<T: Send, F: Fn(usize) -> T + Sync>(n: usize, threads: usize, f: F) -> Vec<T> {
    let next = AtomicUsize::new(0);
    let out: Mutex<Vec<(usize, T)>> = Mutex::new(Vec::new());
    std::thread::scope(|sc| {
        for _ in 0..threads.max(1).min(n.max(1)) {
            sc.spawn(|| {
                loop {
                    let i = next.fetch_add(1, Ordering::Relaxed);
                    if i >= n {
                        break;
                    }
                    let r = f(i);
                    out.lock().unwrap().push((i, r));
                }
            });
        }
    });
    let mut v = out.into_inner().unwrap();
    v.sort_by_key(|x| x.0);
    v.into_iter().map(|x| x.1).collect()
}

pub fn hash_of<T: std::hash::Hash>(t: &T) -> u64 {
    use std::hash::Hasher;
    let mut h = rustc_hash::FxHasher::default();
    t.hash(&mut h);
    h.finish()
}

/// Shared `--replay` implementation for engine-produced artefacts: find the
/// model by exploration label and re-execute the recorded path.
pub fn replay_json<M: Model>(models: &[(String, std::sync::Arc<M>)], v: &Value) -> Result<(), String> {
    let label = v["exploration"].as_str().unwrap_or("");
    let init = v["init"].as_u64().unwrap_or(0) as usize;
    let path: Vec<usize> = v["path"]
        .as_array()
        .map(|a| a.iter().map(|x| x.as_u64().unwrap_or(0) as usize).collect())
        .unwrap_or_default();
    // model names may extend one another ("links=2", "links=2 tracker-fed"): the longest matching name is meant
    let best = models.iter().filter(|(l, _)| label.starts_with(l.as_str())).max_by_key(|(l, _)| l.len());
    for (_l, m) in best.into_iter() {
        {
            let r1 = replay(&**m, init, &path);
            let r2 = replay(&**m, init, &path);
            let k1 = r1.as_ref().map(|x| (x.0, x.1.key.clone()));
            let k2 = r2.as_ref().map(|x| (x.0, x.1.key.clone()));
            if k1 != k2 {
                return Err(format!("MACHINERY: two replays disagree ({k1:?} vs {k2:?})"));
            }
            return match r1 {
                None => Ok(()),
                Some((i, f)) => Err(format!(
                    "step {i} ({}): [{}] {}",
                    path.get(i).map(|e| m.event_name(*e)).unwrap_or_default(),
                    f.key,
                    f.msg
                )),
            };
        }
    }
    Err(format!("unknown exploration label {label:?}"))
}
