//! schedx — stateless schedule exploration, preemption-bounded.
//!
//! Two back-ends share one decision engine (choice list; canonical enabled
//! order: the running task first if still enabled, then ascending ids; an
//! out-of-range replay choice is a hard error):
//!
//! * futures: tasks are real `async` blocks polled by this single-threaded
//!   executor with its own wakers. A task is enabled iff it has not finished
//!   and its waker fired since its last `Pending`. Switch points are every
//!   genuine `Pending` of the primitives used by the code under test plus the
//!   cfg-guarded `verif_hooks::yield_point`s.
//! * threads: each logical thread is an OS thread; the cfg-guarded
//!   `verif_hooks::sched_point` (before every atomic access) hands a baton back
//!   to the explorer, so exactly one thread runs at a time.

use std::future::Future;
use std::pin::Pin;
use std::sync::atomic::{AtomicBool, Ordering};
use std::sync::{Arc, Condvar, Mutex};
use std::task::{Context, Poll, Wake, Waker};

pub type Task = Pin<Box<dyn Future<Output = ()>>>;

struct Flag(AtomicBool);
impl Wake for Flag {
    fn wake(self: Arc<Self>) {
        self.0.store(true, Ordering::SeqCst);
    }
    fn wake_by_ref(self: &Arc<Self>) {
        self.0.store(true, Ordering::SeqCst);
    }
}

#[derive(Clone, Debug)]
pub struct Point {
    /// enabled task ids in canonical order
    pub enabled: Vec<usize>,
    /// index into `enabled`
    pub chosen: usize,
    /// the previously running task is still enabled (choosing another one is a preemption)
    pub running_still_enabled: bool,
}

#[derive(Clone, Debug)]
pub struct Execution {
    pub points: Vec<Point>,
    /// unfinished tasks with none enabled
    pub deadlock: Option<Vec<usize>>,
    pub steps: usize,
}

impl Execution {
    pub fn choices(&self) -> Vec<usize> {
        self.points.iter().map(|p| p.chosen).collect()
    }
    pub fn schedule_ids(&self) -> Vec<usize> {
        self.points.iter().map(|p| p.enabled[p.chosen]).collect()
    }
}

/// Run one execution of `tasks`: follow `prefix` (indices into the canonical
/// enabled list), then always take choice 0. `on_tag` receives every switch
/// point tag of the task that is running.
pub fn run_futures(mut tasks: Vec<Task>, prefix: &[usize], max_steps: usize, on_tag: &mut dyn FnMut(usize, &'static str)) -> Result<Execution, String> {
    let n = tasks.len();
    let flags: Vec<Arc<Flag>> = (0..n).map(|_| Arc::new(Flag(AtomicBool::new(true)))).collect();
    let wakers: Vec<Waker> = flags.iter().map(|f| Waker::from(f.clone())).collect();
    let mut done = vec![false; n];
    let mut points: Vec<Point> = Vec::new();
    let mut running: Option<usize> = None;
    let mut steps = 0usize;
    // the hook records tags through this cell
    let tag_cell: std::rc::Rc<std::cell::RefCell<Vec<&'static str>>> = Default::default();
    {
        let tc = tag_cell.clone();
        srtla_send::verif_hooks::install(Some(Box::new(move |tag| {
            tc.borrow_mut().push(tag);
            true
        })));
    }
    let result = loop {
        let mut enabled: Vec<usize> = Vec::new();
        let mut still = false;
        if let Some(r) = running {
            if !done[r] && flags[r].0.load(Ordering::SeqCst) {
                enabled.push(r);
                still = true;
            }
        }
        for t in 0..n {
            if Some(t) != running && !done[t] && flags[t].0.load(Ordering::SeqCst) {
                enabled.push(t);
            } else if Some(t) == running && !still {
                // not enabled
            }
        }
        if enabled.is_empty() {
            let left: Vec<usize> = (0..n).filter(|t| !done[*t]).collect();
            break Ok(Execution { points, deadlock: if left.is_empty() { None } else { Some(left) }, steps });
        }
        let idx = points.len();
        let chosen = if idx < prefix.len() {
            if prefix[idx] >= enabled.len() {
                break Err(format!("replay diverged: choice {} at point {idx} but only {} tasks are enabled", prefix[idx], enabled.len()));
            }
            prefix[idx]
        } else {
            0
        };
        let t = enabled[chosen];
        points.push(Point { enabled, chosen, running_still_enabled: still });
        flags[t].0.store(false, Ordering::SeqCst);
        let mut cx = Context::from_waker(&wakers[t]);
        steps += 1;
        let r = tasks[t].as_mut().poll(&mut cx);
        for tag in tag_cell.borrow_mut().drain(..) {
            on_tag(t, tag);
        }
        if let Poll::Ready(()) = r {
            done[t] = true;
        }
        running = Some(t);
        if steps > max_steps {
            break Err(format!("execution exceeded {max_steps} steps (livelock?)"));
        }
    };
    srtla_send::verif_hooks::install(None);
    drop(tasks);
    result
}

pub struct ExploreStats {
    pub executions: u64,
    pub steps: u64,
    pub max_points: usize,
    pub deadlocks: u64,
    pub cap_hit: bool,
}

/// DFS over schedules with at most `bound` preemptions. `exec(prefix)` runs one
/// execution (fresh tasks) and judges it; it returns the execution (for
/// branching) or an error (violation / machinery).
pub fn explore_schedules(
    bound: usize,
    max_executions: u64,
    exec: &mut dyn FnMut(&[usize]) -> Result<Execution, (String, String)>,
) -> Result<ExploreStats, (String, String, Vec<usize>)> {
    let mut stats = ExploreStats { executions: 0, steps: 0, max_points: 0, deadlocks: 0, cap_hit: false };
    let mut stack: Vec<Vec<usize>> = vec![vec![]];
    while let Some(prefix) = stack.pop() {
        if stats.executions >= max_executions {
            stats.cap_hit = true;
            break;
        }
        let x = match exec(&prefix) {
            Ok(x) => x,
            Err((k, m)) => return Err((k, m, prefix)),
        };
        stats.executions += 1;
        stats.steps += x.steps as u64;
        stats.max_points = stats.max_points.max(x.points.len());
        if x.deadlock.is_some() {
            stats.deadlocks += 1;
        }
        // preemptions used before each point
        let mut used = 0usize;
        let mut used_before: Vec<usize> = Vec::with_capacity(x.points.len());
        for p in &x.points {
            used_before.push(used);
            if p.running_still_enabled && p.chosen != 0 {
                used += 1;
            }
        }
        let choices = x.choices();
        for i in (prefix.len()..x.points.len()).rev() {
            let p = &x.points[i];
            for alt in 1..p.enabled.len() {
                let cost = used_before[i] + if p.running_still_enabled { 1 } else { 0 };
                if cost > bound {
                    continue;
                }
                let mut pre = choices[..i].to_vec();
                pre.push(alt);
                stack.push(pre);
            }
        }
    }
    Ok(stats)
}

/// Poll a future to completion on the calling thread with a no-op waker
/// (for async functions that never genuinely wait when called alone).
pub fn block_on_simple<F: Future>(f: F) -> F::Output {
    let flag = Arc::new(Flag(AtomicBool::new(false)));
    let waker = Waker::from(flag);
    let mut cx = Context::from_waker(&waker);
    let mut f = Box::pin(f);
    for _ in 0..1_000_000 {
        if let Poll::Ready(v) = f.as_mut().poll(&mut cx) {
            return v;
        }
    }
    panic!("block_on_simple: future did not complete");
}

// ---------------------------------------------------------------------------
// threads back-end

struct Baton {
    /// which logical thread may run; usize::MAX = the explorer
    turn: usize,
    /// per thread: parked at a sched point / finished
    at_point: Vec<bool>,
    finished: Vec<bool>,
}

pub struct ThreadExec {
    pub points: Vec<Point>,
    pub steps: usize,
}

/// Run `bodies` (one closure per logical thread) under the baton scheduler,
/// following `prefix`, then always choice 0.
pub fn run_threads(bodies: Vec<Box<dyn FnOnce() + Send>>, prefix: &[usize]) -> Result<ThreadExec, String> {
    let n = bodies.len();
    let shared = Arc::new((Mutex::new(Baton { turn: usize::MAX, at_point: vec![false; n], finished: vec![false; n] }), Condvar::new()));
    let mut handles = Vec::new();
    for (id, body) in bodies.into_iter().enumerate() {
        let sh = shared.clone();
        handles.push(std::thread::spawn(move || {
            let sh2 = sh.clone();
            // every sched point: park, hand the baton to the explorer, wait for our turn
            srtla_send::verif_hooks::install(Some(Box::new(move |_tag| {
                let (m, cv) = &*sh2;
                let mut b = m.lock().unwrap();
                b.at_point[id] = true;
                b.turn = usize::MAX;
                cv.notify_all();
                while b.turn != id {
                    b = cv.wait(b).unwrap();
                }
                b.at_point[id] = false;
                false
            })));
            // wait for the first turn (thread start is a switch point too)
            {
                let (m, cv) = &*sh;
                let mut b = m.lock().unwrap();
                b.at_point[id] = true;
                cv.notify_all();
                while b.turn != id {
                    b = cv.wait(b).unwrap();
                }
                b.at_point[id] = false;
            }
            body();
            srtla_send::verif_hooks::install(None);
            let (m, cv) = &*sh;
            let mut b = m.lock().unwrap();
            b.finished[id] = true;
            b.turn = usize::MAX;
            cv.notify_all();
        }));
    }
    let (m, cv) = &*shared;
    let mut points: Vec<Point> = Vec::new();
    let mut running: Option<usize> = None;
    let mut steps = 0usize;
    let mut err = None;
    loop {
        // wait until every live thread is parked and the baton is back
        let mut b = m.lock().unwrap();
        while !(b.turn == usize::MAX && (0..n).all(|t| b.finished[t] || b.at_point[t])) {
            b = cv.wait(b).unwrap();
        }
        let mut enabled: Vec<usize> = Vec::new();
        let mut still = false;
        if let Some(r) = running {
            if !b.finished[r] {
                enabled.push(r);
                still = true;
            }
        }
        for t in 0..n {
            if Some(t) != running && !b.finished[t] {
                enabled.push(t);
            }
        }
        if enabled.is_empty() {
            break;
        }
        let idx = points.len();
        let chosen = if idx < prefix.len() {
            if prefix[idx] >= enabled.len() {
                err = Some(format!("replay diverged at point {idx}"));
                // let everything run to completion in id order
                0
            } else {
                prefix[idx]
            }
        } else {
            0
        };
        let t = enabled[chosen];
        points.push(Point { enabled, chosen, running_still_enabled: still });
        running = Some(t);
        steps += 1;
        b.turn = t;
        cv.notify_all();
        drop(b);
    }
    for h in handles {
        let _ = h.join();
    }
    match err {
        Some(e) => Err(e),
        None => Ok(ThreadExec { points, steps }),
    }
}
