//! Small helpers shared by the checks: virtual clock, link builders, hashing.

use std::net::{IpAddr, Ipv4Addr};

use srtla_core::connection::{LinkPhase, SrtlaConnection};
use srtla_core::utils::verif_clock;

/// Base of the virtual clock. Large enough that `now - 60_000` never underflows
/// and far from 0 (0 means "never" in several stamps of the code under test).
pub const T0: u64 = 10_000_000;

pub fn set_now(t: u64) {
    verif_clock::set(t);
}

/// A connected, `Live`, freshly heard-from link (the state REG3 + warm-up leaves),
/// built through the public constructor and the `test-internals` public fields.
pub fn live_conn(idx: usize, now: u64) -> SrtlaConnection {
    let ip = IpAddr::V4(Ipv4Addr::new(127, 0, 0, 1 + idx as u8));
    let mut c = SrtlaConnection::new_registering(
        1000 + idx as u64,
        format!("L{idx}"),
        ip,
        now.saturating_sub(60_000),
    );
    c.connected = true;
    c.phase = LinkPhase::Live;
    c.last_received = Some(now);
    c.reconnection.connection_established_ms = now.saturating_sub(60_000);
    c
}

/// A fresh, never-registered link.
pub fn registering_conn(idx: usize, now: u64) -> SrtlaConnection {
    let ip = IpAddr::V4(Ipv4Addr::new(127, 0, 0, 1 + idx as u8));
    SrtlaConnection::new_registering(1000 + idx as u64, format!("L{idx}"), ip, now)
}

/// SRT data packet with sequence number `seq` (top bit clear), optional R flag,
/// and a payload id making every client datagram unique.
pub fn srt_data(seq: u32, retransmit: bool, payload_id: u32, len: usize) -> Vec<u8> {
    let len = len.max(16);
    let mut p = vec![0u8; len];
    p[0..4].copy_from_slice(&(seq & 0x7fff_ffff).to_be_bytes());
    p[4] = if retransmit { 0x04 } else { 0x00 };
    p[8..12].copy_from_slice(&payload_id.to_be_bytes());
    p[12..16].copy_from_slice(&0xfeed_beefu32.to_be_bytes());
    for (i, b) in p.iter_mut().enumerate().skip(16) {
        *b = (i as u8) ^ (payload_id as u8);
    }
    p
}

pub fn f64_bits(x: f64) -> u64 {
    x.to_bits()
}

/// Per-worker tokio runtime (current thread, I/O enabled) and a loopback
/// listener standing in for the local SRT listener where a real socket is
/// needed but nothing is sent to a client.
pub struct Rt {
    pub rt: tokio::runtime::Runtime,
    pub listener: tokio::net::UdpSocket,
}

impl Rt {
    pub fn new() -> Self {
        let rt = tokio::runtime::Builder::new_current_thread()
            .enable_io()
            .enable_time()
            .build()
            .expect("tokio runtime");
        let listener = rt
            .block_on(async { tokio::net::UdpSocket::bind("127.0.0.1:0").await })
            .expect("bind loopback listener");
        Self { rt, listener }
    }
}

impl Default for Rt {
    fn default() -> Self {
        Self::new()
    }
}

pub fn progress_path(id: &str) -> std::path::PathBuf {
    crate::evidence::verif_root()
        .join("target")
        .join(format!(".progress-{id}"))
}

/// Record what an input sweep is doing right now (read by the parent process
/// if the sweep dies abnormally).
pub fn progress(id: &str, what: &str) {
    let _ = std::fs::write(progress_path(id), what);
}
