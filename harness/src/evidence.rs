//! Report / evidence / known-findings plumbing shared by all checks.

use std::collections::BTreeMap;
use std::path::{Path, PathBuf};
use std::time::Instant;

use serde_json::{Map, Value, json};

#[derive(Clone, Copy, Debug, PartialEq, Eq)]
pub enum Tier {
    Quick,
    Thorough,
}

impl Tier {
    pub fn as_str(self) -> &'static str {
        match self {
            Tier::Quick => "quick",
            Tier::Thorough => "thorough",
        }
    }
    pub fn is_quick(self) -> bool {
        self == Tier::Quick
    }
}

/// One violation of a property, as found by a check.
#[derive(Clone, Debug)]
pub struct Violation {
    /// Class of the failure: identifies *what* fails (call site / input shape /
    /// history shape). Known findings are matched on this.
    pub key: String,
    pub message: String,
    /// Replayable artefact (events / schedule / input).
    pub replay: Value,
}

/// What a check returns.
#[derive(Debug, Default)]
pub struct Report {
    pub states: u64,
    pub transitions: u64,
    pub traces: u64,
    pub samples: Vec<Value>,
    pub extra: Map<String, Value>,
    pub assumptions: Vec<String>,
    pub exhaustive: bool,
    pub violations: Vec<Violation>,
    /// Number of violating executions per key (all of them, not only the kept ones).
    pub violation_counts: BTreeMap<String, u64>,
    pub observations: Vec<String>,
    pub machinery_errors: Vec<String>,
}

impl Report {
    pub fn new() -> Self {
        Self {
            exhaustive: true,
            ..Default::default()
        }
    }
    pub fn set(&mut self, k: &str, v: Value) {
        self.extra.insert(k.to_string(), v);
    }
    pub fn assume(&mut self, s: &str) {
        self.assumptions.push(s.to_string());
    }
    pub fn observe(&mut self, s: String) {
        if self.observations.len() < 50 {
            self.observations.push(s);
        }
    }
    pub fn add_violation(&mut self, v: Violation) {
        *self.violation_counts.entry(v.key.clone()).or_insert(0) += 1;
        // keep at most 3 artefacts per key (the first ones found are the
        // shortest because alphabets are ordered simplest-first)
        let kept = self.violations.iter().filter(|x| x.key == v.key).count();
        if kept < 3 {
            self.violations.push(v);
        }
    }
    pub fn count_violation(&mut self, key: &str, n: u64) {
        *self.violation_counts.entry(key.to_string()).or_insert(0) += n;
    }
    /// Merge coverage numbers of a sub-exploration.
    pub fn absorb(&mut self, other: Report) {
        self.states += other.states;
        self.transitions += other.transitions;
        self.traces += other.traces;
        for s in other.samples {
            if self.samples.len() < 12 {
                self.samples.push(s);
            }
        }
        for (k, v) in other.extra {
            self.extra.insert(k, v);
        }
        self.assumptions.extend(other.assumptions);
        self.exhaustive &= other.exhaustive;
        for v in other.violations {
            let kept = self.violations.iter().filter(|x| x.key == v.key).count();
            if kept < 3 {
                self.violations.push(v);
            }
        }
        for (k, n) in other.violation_counts {
            *self.violation_counts.entry(k).or_insert(0) += n;
        }
        for o in other.observations {
            self.observe(o);
        }
        self.machinery_errors.extend(other.machinery_errors);
    }
}

#[derive(Clone, Debug)]
pub struct KnownFinding {
    pub property: String,
    pub key: String,
    pub status: String,
    pub description: String,
}

pub fn verif_root() -> PathBuf {
    std::env::var("VERIF_ROOT")
        .map(PathBuf::from)
        .unwrap_or_else(|_| PathBuf::from("/verif"))
}

pub fn load_known_findings() -> Vec<KnownFinding> {
    let p = verif_root().join("known_findings.json");
    let Ok(text) = std::fs::read_to_string(&p) else {
        return Vec::new();
    };
    let Ok(v) = serde_json::from_str::<Value>(&text) else {
        return Vec::new();
    };
    let mut out = Vec::new();
    if let Some(arr) = v.get("findings").and_then(Value::as_array) {
        for f in arr {
            out.push(KnownFinding {
                property: f["property"].as_str().unwrap_or("").to_string(),
                key: f["key"].as_str().unwrap_or("").to_string(),
                status: f["status"].as_str().unwrap_or("open").to_string(),
                description: f["description"].as_str().unwrap_or("").to_string(),
            });
        }
    }
    out
}

/// Finish a run: classify violations against the known-findings file, write
/// replay artefacts and the evidence file, print the interface lines, and
/// return the process exit code (0 ok / 1 violation / 2 machinery error).
pub fn finish(property: &str, tier: Tier, started: Instant, mut rep: Report) -> i32 {
    let root = verif_root();
    let known = load_known_findings();
    let seed: i64 = std::env::var("VERIF_SEED")
        .ok()
        .and_then(|s| s.parse().ok())
        .unwrap_or(0);

    let mut new_violations: Vec<(Violation, PathBuf)> = Vec::new();
    let mut known_hit: BTreeMap<String, String> = BTreeMap::new();
    let _ = std::fs::create_dir_all(root.join("replays"));
    let _ = std::fs::create_dir_all(root.join("evidence"));

    let mut unknown_keys: BTreeMap<String, u64> = BTreeMap::new();
    for (k, n) in &rep.violation_counts {
        if let Some(kf) = known
            .iter()
            .find(|kf| kf.property == property && kf.status == "open" && &kf.key == k)
        {
            known_hit.insert(k.clone(), kf.description.clone());
        } else {
            unknown_keys.insert(k.clone(), *n);
        }
    }
    let mut idx = 0;
    let mut per_key: BTreeMap<String, usize> = BTreeMap::new();
    for v in rep.violations.drain(..) {
        if known_hit.contains_key(&v.key) {
            continue;
        }
        let n = per_key.entry(v.key.clone()).or_insert(0);
        if *n >= 3 {
            continue;
        }
        *n += 1;
        idx += 1;
        let path = root.join("replays").join(format!("{property}-{idx}.json"));
        let art = json!({
            "property": property,
            "key": v.key,
            "message": v.message,
            "replay": v.replay,
        });
        let _ = std::fs::write(&path, serde_json::to_string_pretty(&art).unwrap());
        new_violations.push((v, path));
    }

    for k in unknown_keys.keys() {
        if !new_violations.iter().any(|(v, _)| &v.key == k) {
            idx += 1;
            let path = root.join("replays").join(format!("{property}-{idx}.json"));
            let art = json!({"property": property, "key": k, "message": "violation counted, no artefact kept", "replay": Value::Null});
            let _ = std::fs::write(&path, serde_json::to_string_pretty(&art).unwrap());
            new_violations.push((
                Violation { key: k.clone(), message: "violation counted, no artefact kept".into(), replay: Value::Null },
                path,
            ));
        }
    }
    let wall = started.elapsed().as_secs_f64();
    let n_viol: u64 = unknown_keys.values().sum();
    let mut coverage = Map::new();
    coverage.insert("states".into(), json!(rep.states.max(1)));
    coverage.insert("transitions".into(), json!(rep.transitions.max(1)));
    coverage.insert("traces_validated_against_impl".into(), json!(rep.traces));
    if rep.samples.is_empty() {
        rep.samples.push(json!("(no sample recorded)"));
    }
    coverage.insert("samples".into(), Value::Array(rep.samples.clone()));
    coverage.insert("exhaustive".into(), json!(rep.exhaustive));
    coverage.insert("evaluations".into(), json!(rep.traces.max(1)));
    coverage.insert("distinct_nontrivial".into(), json!(rep.states.max(2)));
    for (k, v) in rep.extra.iter() {
        coverage.insert(k.clone(), v.clone());
    }
    if !rep.observations.is_empty() {
        coverage.insert("observations".into(), json!(rep.observations));
    }
    if !known_hit.is_empty() {
        let m: Map<String, Value> = known_hit
            .iter()
            .map(|(k, d)| {
                (
                    k.clone(),
                    json!({"description": d, "violating_executions": rep.violation_counts.get(k)}),
                )
            })
            .collect();
        coverage.insert("known_findings_reproduced".into(), Value::Object(m));
    }
    if !unknown_keys.is_empty() {
        coverage.insert("violation_keys".into(), json!(unknown_keys));
    }
    if !rep.machinery_errors.is_empty() {
        coverage.insert("machinery_errors".into(), json!(rep.machinery_errors));
    }
    let ev = json!({
        "property_id": property,
        "tier": tier.as_str(),
        "seed": seed,
        "level": "model_checking",
        "coverage": Value::Object(coverage),
        "assumptions": rep.assumptions,
        "wall_s": (wall * 1000.0).round() / 1000.0,
        "violations": n_viol,
    });
    let ev_path = root.join("evidence").join(format!("{property}.json"));
    if let Err(e) = write_atomic(&ev_path, &serde_json::to_string_pretty(&ev).unwrap()) {
        eprintln!("MACHINERY: cannot write evidence {}: {e}", ev_path.display());
        return 2;
    }

    for (k, d) in &known_hit {
        println!("KNOWN-FINDING: property={property} {k}: {d}");
    }
    for o in &rep.observations {
        println!("OBSERVATION: property={property} {o}");
    }
    println!(
        "{property} {}: states={} transitions={} traces={} exhaustive={} wall={:.1}s",
        tier.as_str(),
        rep.states,
        rep.transitions,
        rep.traces,
        rep.exhaustive,
        wall
    );
    for e in &rep.machinery_errors {
        eprintln!("MACHINERY: {e}");
    }
    // a confirmed violation (reproduced on two replays) is a verdict even if
    // some other part of the run had a machinery problem
    if !new_violations.is_empty() {
        for (v, path) in &new_violations {
            println!("  [{}] {}", v.key, v.message);
            println!("VIOLATION property={property} replay={}", path.display());
        }
        return 1;
    }
    if !rep.machinery_errors.is_empty() {
        return 2;
    }
    0
}

fn write_atomic(path: &Path, text: &str) -> std::io::Result<()> {
    let tmp = path.with_extension("json.tmp");
    std::fs::write(&tmp, text)?;
    std::fs::rename(&tmp, path)
}
