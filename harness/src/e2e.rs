//! The *real* event loop under a controlled scheduler (DESIGN 0.4b).
//!
//! `run_sender_with_config` itself — `select!` glue, timers, reader tasks and all —
//! runs on a single-threaded tokio runtime whose clock is paused. The driver
//! shares that thread: it alone moves the clock (`tokio::time::advance`, with
//! the repository's `now_ms()` slaved to the same virtual time through the
//! `verif_clock` hook), it alone injects datagrams (real loopback UDP from a
//! client socket and a receiver socket), and after every stimulus it lets the
//! loop run to quiescence before reading what came out. Nothing is mirrored
//! here: whatever the glue does is what is observed.
//!
//! Quiescence without sleeping: loopback delivery may be deferred to ksoftirqd,
//! but the thread is pinned to one CPU, so a sentinel datagram sent to the
//! driver's own socket arrives after everything sent before it. One settling
//! round is: sentinel (stimulus has reached the sender's sockets), a fixed
//! number of cooperative yields (the runtime polls I/O on every tick, the
//! reader tasks and the loop run, replies are sent), sentinel (replies have
//! reached the driver's sockets), drain. Rounds repeat until one is empty.

use std::collections::BTreeMap;
use std::future::Future;
use std::net::{IpAddr, Ipv4Addr, SocketAddr, UdpSocket as StdUdp};
use std::sync::Arc;
use std::time::{Duration, Instant};

use srtla_core::priority::CriticalWindow;
use srtla_send::config::DynamicConfig;
use srtla_send::net::UplinkBinder;
use srtla_send::sender::run_sender_with_config;
use srtla_send::stats::SharedStats;
use srtla_send::subscriptions::SubscriptionHub;

use crate::util::T0;
use crate::world::pin_this_thread;

/// yields per settling round (the longest hop chain is socket -> reader task -> channel -> loop -> socket)
const YIELDS: usize = 12;

#[derive(Default, Debug, Clone, PartialEq, Eq)]
pub struct StepOut {
    /// (link index by source address, datagram) in arrival order at the receiver
    pub wire: Vec<(usize, Vec<u8>)>,
    pub client: Vec<Vec<u8>>,
}

pub struct Rig {
    pub rx: StdUdp,
    pub rx_addr: SocketAddr,
    pub client: StdUdp,
    pub listener: SocketAddr,
    sentinel_tx: StdUdp,
    sentinel_rx: StdUdp,
    sentinel_addr: SocketAddr,
    sentinel_no: u64,
    /// virtual milliseconds since the loop was started
    pub vt: u64,
    /// latest source address seen per link (a reconnect changes the port)
    pub link_src: BTreeMap<usize, SocketAddr>,
    pub n_links: usize,
    buf: Vec<u8>,
    pub settle_rounds: u64,
    /// the same count, visible to the watchdog
    pub progress: Arc<std::sync::atomic::AtomicU64>,
    pub config: DynamicConfig,
    pub stats: SharedStats,
    pub hub: SubscriptionHub,
    ips_path: std::path::PathBuf,
}

fn nb(s: StdUdp) -> StdUdp {
    s.set_nonblocking(true).expect("nonblocking");
    s
}

static LISTENER_PORT: std::sync::atomic::AtomicU64 = std::sync::atomic::AtomicU64::new(0);
static RIG_NO: std::sync::atomic::AtomicU64 = std::sync::atomic::AtomicU64::new(0);

impl Rig {
    fn link_of(&self, src: SocketAddr) -> Option<usize> {
        match src.ip() {
            IpAddr::V4(v) => {
                let o = v.octets();
                if o[0] == 127 && o[1] == 0 && o[2] == 0 && o[3] >= 2 { Some(o[3] as usize - 2) } else { None }
            }
            _ => None,
        }
    }

    /// Blocks (real time, bounded) until a fresh sentinel sent to the driver's own socket has arrived.
    fn sentinel(&mut self) -> Result<(), String> {
        self.sentinel_no += 1;
        let tag = self.sentinel_no.to_be_bytes();
        self.sentinel_tx.send_to(&tag, self.sentinel_addr).map_err(|e| format!("sentinel send: {e}"))?;
        let t0 = Instant::now();
        let mut b = [0u8; 16];
        loop {
            match self.sentinel_rx.recv(&mut b) {
                Ok(8) if b[..8] == tag => return Ok(()),
                Ok(_) => {}
                Err(_) => {
                    if t0.elapsed() > Duration::from_secs(5) {
                        return Err("sentinel did not arrive within 5 s".into());
                    }
                    std::thread::yield_now();
                }
            }
        }
    }

    fn drain(&mut self, out: &mut StepOut) -> usize {
        let mut n = 0;
        while let Ok((k, src)) = self.rx.recv_from(&mut self.buf) {
            if let Some(l) = self.link_of(src) {
                self.link_src.insert(l, src);
                out.wire.push((l, self.buf[..k].to_vec()));
                n += 1;
            }
        }
        while let Ok((k, _)) = self.client.recv_from(&mut self.buf) {
            out.client.push(self.buf[..k].to_vec());
            n += 1;
        }
        n
    }

    /// Let the loop run until nothing more comes out.
    pub async fn settle(&mut self, out: &mut StepOut) -> Result<(), String> {
        for _round in 0..64 {
            self.settle_rounds += 1;
            self.progress.fetch_add(1, std::sync::atomic::Ordering::Relaxed);
            self.sentinel()?;
            for _ in 0..YIELDS {
                tokio::task::yield_now().await;
            }
            self.sentinel()?;
            if self.drain(out) == 0 {
                return Ok(());
            }
        }
        Err("the loop did not become quiescent within 64 settling rounds".into())
    }

    /// Move the virtual clock (both tokio's and the repository's) by `dt` ms and settle.
    pub async fn advance(&mut self, dt: u64) -> Result<StepOut, String> {
        let mut out = StepOut::default();
        self.vt += dt;
        srtla_core::utils::verif_clock::set(T0 + self.vt);
        tokio::time::advance(Duration::from_millis(dt)).await;
        self.settle(&mut out).await?;
        Ok(out)
    }

    pub async fn client_send(&mut self, bytes: &[u8]) -> Result<StepOut, String> {
        let mut out = StepOut::default();
        self.client.send_to(bytes, self.listener).map_err(|e| format!("client send: {e}"))?;
        self.settle(&mut out).await?;
        Ok(out)
    }

    /// A datagram from the receiver to the current source address of `link`.
    pub async fn uplink_send(&mut self, link: usize, bytes: &[u8]) -> Result<StepOut, String> {
        let mut out = StepOut::default();
        if let Some(dst) = self.link_src.get(&link).copied() {
            let _ = self.rx.send_to(bytes, dst);
        }
        self.settle(&mut out).await?;
        Ok(out)
    }
}

impl Rig {
    /// Several datagrams from the receiver to `link`, back to back (they reach the reader task in one batch).
    pub async fn uplink_send_many(&mut self, link: usize, datagrams: &[Vec<u8>]) -> Result<StepOut, String> {
        let mut out = StepOut::default();
        if let Some(dst) = self.link_src.get(&link).copied() {
            for d in datagrams {
                let _ = self.rx.send_to(d, dst);
            }
        }
        self.settle(&mut out).await?;
        Ok(out)
    }

    /// Saturation: for `ms` virtual milliseconds the client keeps the sender's listener socket non-empty at every
    /// instant (it is topped up with `burst` datagrams before every 50 ms step and the loop only gets a bounded
    /// number of polls per step, fewer than it would need to empty the socket). No quiescence is awaited while the
    /// flood lasts; everything that came out is returned.
    pub async fn flood(&mut self, ms: u64, burst: usize, datagram: &dyn Fn(u64) -> Vec<u8>) -> Result<StepOut, String> {
        let mut out = StepOut::default();
        let mut n = 0u64;
        let steps = ms / 50;
        for _ in 0..steps {
            self.vt += 50;
            srtla_core::utils::verif_clock::set(T0 + self.vt);
            tokio::time::advance(Duration::from_millis(50)).await;
            // every poll of the loop handles at most one cooperative budget (128 operations) of datagrams: before
            // each poll the socket is topped up with more than that, so the loop never sees it empty
            for _ in 0..24 {
                for _ in 0..burst {
                    let d = datagram(n);
                    n += 1;
                    let _ = self.client.send_to(&d, self.listener);
                }
                self.sentinel()?;
                tokio::task::yield_now().await;
                self.drain(&mut out);
            }
            self.progress.fetch_add(1, std::sync::atomic::Ordering::Relaxed);
        }
        // the flood stops: let the loop work off what is left
        self.settle(&mut out).await?;
        Ok(out)
    }

    /// Replace the content of the ips file the sender re-reads on SIGHUP.
    pub fn write_ips(&self, text: &str) -> Result<(), String> {
        std::fs::write(&self.ips_path, text).map_err(|e| format!("write ips file: {e}"))
    }
}

impl Drop for Rig {
    fn drop(&mut self) {
        let _ = std::fs::remove_file(&self.ips_path);
    }
}

/// Run `script` against a freshly started real sender with `n_links` uplinks (127.0.0.2 ...).
/// The sender future and the driver share one task (`select!`, biased: driver first).
pub fn with_real_loop<T, F, Fut>(n_links: usize, config: DynamicConfig, binder: Arc<dyn UplinkBinder>, script: F) -> Result<T, String>
where
    F: FnOnce(Rig) -> Fut,
    Fut: Future<Output = Result<T, String>>,
{
    pin_this_thread();
    let rt = tokio::runtime::Builder::new_current_thread()
        .enable_all()
        .start_paused(true)
        .event_interval(1)
        .build()
        .map_err(|e| format!("runtime: {e}"))?;
    let rx = {
        // a large receive buffer: a flood scenario forwards thousands of datagrams between two drains
        let s = socket2::Socket::new(socket2::Domain::IPV4, socket2::Type::DGRAM, Some(socket2::Protocol::UDP)).map_err(|e| e.to_string())?;
        s.set_recv_buffer_size(8 << 20).ok();
        s.bind(&std::net::SocketAddr::from(([127, 0, 0, 1], 0)).into()).map_err(|e| e.to_string())?;
        nb(s.into())
    };
    let rx_addr = rx.local_addr().unwrap();
    let client = nb(StdUdp::bind("127.0.0.1:0").map_err(|e| e.to_string())?);
    // the sender binds its listener by port number: ports come from this process's slice of 30000..32400
    // (see world::port_slice), never handed out twice in a row, probed free just before use
    let local_port = loop {
        let k = LISTENER_PORT.fetch_add(1, std::sync::atomic::Ordering::Relaxed);
        let port = match crate::world::port_slice() {
            Some(n) => 30_000 + n as u64 * 60 + k % 60,
            None => 30_000 + ((std::process::id() as u64 % 13) * 200 + k) % 2_400,
        };
        if StdUdp::bind(("::", port as u16)).is_ok() {
            break port as u16;
        }
    };
    let sentinel_rx = nb(StdUdp::bind("127.0.0.1:0").map_err(|e| e.to_string())?);
    let sentinel_addr = sentinel_rx.local_addr().unwrap();
    let sentinel_tx = nb(StdUdp::bind("127.0.0.1:0").map_err(|e| e.to_string())?);
    let no = RIG_NO.fetch_add(1, std::sync::atomic::Ordering::Relaxed);
    let ips_path = crate::evidence::verif_root().join("target").join(format!(".e2e-ips-{}-{no}.txt", std::process::id()));
    let ips: String = (0..n_links).map(|i| format!("127.0.0.{}\n", 2 + i)).collect();
    std::fs::write(&ips_path, ips).map_err(|e| e.to_string())?;
    let ips_arg = ips_path.to_str().unwrap().to_string();
    let stats = SharedStats::new();
    let hub = SubscriptionHub::new();
    let progress = Arc::new(std::sync::atomic::AtomicU64::new(0));
    let rig = Rig {
        rx,
        rx_addr,
        client,
        listener: SocketAddr::new(IpAddr::V4(Ipv4Addr::LOCALHOST), local_port),
        sentinel_tx,
        sentinel_rx,
        sentinel_addr,
        sentinel_no: 0,
        vt: 0,
        link_src: BTreeMap::new(),
        n_links,
        buf: vec![0u8; 4096],
        settle_rounds: 0,
        progress: progress.clone(),
        config: config.clone(),
        stats: stats.clone(),
        hub: hub.clone(),
        ips_path,
    };
    srtla_core::utils::verif_clock::set(T0);
    let r = rt.block_on(async move {
        let sender = run_sender_with_config(local_port, "127.0.0.1", rx_addr.port(), &ips_arg, config, stats, CriticalWindow::new(), hub, binder);
        // Watchdog in virtual time. If every task (the loop and the driver) is blocked for good, the paused
        // clock jumps from one heartbeat to the next; two heartbeats without a settling round in between end
        // the run instead of letting it hang. (While the driver works the runtime is never idle, so the clock
        // does not auto-advance and the heartbeat is just one more timer that is never due.)
        let (blocked_tx, mut blocked_rx) = tokio::sync::mpsc::channel::<()>(1);
        let beat = tokio::spawn(async move {
            let mut last = progress.load(std::sync::atomic::Ordering::Relaxed);
            let mut idle = 0;
            loop {
                tokio::time::sleep(Duration::from_secs(600)).await;
                let p = progress.load(std::sync::atomic::Ordering::Relaxed);
                if p == last {
                    idle += 1;
                    if idle >= 2 {
                        let _ = blocked_tx.send(()).await;
                        return;
                    }
                } else {
                    idle = 0;
                    last = p;
                }
            }
        });
        let r = tokio::select! {
            biased;
            r = script(rig) => r,
            _ = blocked_rx.recv() => Err("BLOCKED: the event loop and the driver are both blocked for good (a hub operation the driver awaits never completes)".to_string()),
            r = sender => Err(format!("the sender loop ended by itself: {:?}", r.err().map(|e| e.to_string()))),
        };
        beat.abort();
        r
    });
    srtla_core::utils::verif_clock::clear();
    drop(rt);
    r
}

/// Spike: handshake, traffic, keepalives; returns a normalised transcript.
pub fn spike() -> Result<String, String> {
    use crate::util::srt_data;
    use crate::world::{FakeReceiver, pkt_type};
    with_real_loop(2, DynamicConfig::new(), Arc::new(srtla_send::net::SourceIpBinder), |mut rig| async move {
        let mut t = String::new();
        let mut rec = FakeReceiver::default();
        let mut show = |what: &str, vt: u64, o: &StepOut| {
            let w: Vec<String> = o.wire.iter().map(|(l, b)| format!("{l}:{:04x}/{}", pkt_type(b).unwrap_or(0), b.len())).collect();
            let c: Vec<String> = o.client.iter().map(|b| format!("{:04x}/{}", pkt_type(b).unwrap_or(0), b.len())).collect();
            t.push_str(&format!("+{vt} {what}: wire {w:?} client {c:?}\n"));
        };
        let mut o = StepOut::default();
        rig.settle(&mut o).await?;
        show("start", rig.vt, &o);
        let o = rig.advance(1003).await?;
        show("advance", rig.vt, &o);
        let mut pending = rec.replies(&o.wire);
        for _ in 0..6 {
            let mut next = Vec::new();
            for (l, b) in pending.drain(..) {
                let o = rig.uplink_send(l, &b).await?;
                show(&format!("reply {:04x} to {l}", pkt_type(&b).unwrap_or(0)), rig.vt, &o);
                next.extend(rec.replies(&o.wire));
            }
            if next.is_empty() {
                let o = rig.advance(1000).await?;
                show("advance", rig.vt, &o);
                next.extend(rec.replies(&o.wire));
            }
            pending = next;
        }
        for k in 0..40u32 {
            let o = rig.client_send(&srt_data(1000 + k, false, k, 188)).await?;
            if !o.wire.is_empty() || !o.client.is_empty() {
                show(&format!("client #{k}"), rig.vt, &o);
            }
            let o = rig.advance(1).await?;
            if !o.wire.is_empty() || !o.client.is_empty() {
                show("advance 1", rig.vt, &o);
            }
        }
        let o = rig.advance(15).await?;
        show("advance 15", rig.vt, &o);
        let o = rig.uplink_send(0, &[0x80, 0x03, 0, 0, 0, 0, 0x03, 0xe9, 0, 0, 0, 0, 0, 0, 0, 0]).await?;
        show("NAK to 0", rig.vt, &o);
        t.push_str(&format!("settle rounds {}\n", rig.settle_rounds));
        Ok(t)
    })
}
