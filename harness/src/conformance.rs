//! End-to-end conformance run for the mirrored `select!` glue (DESIGN 0.4 / 2.5).
//!
//! Starts the *real* `run_sender_with_config` in real time against a fake
//! receiver on loopback (two uplinks), registers both links, streams 200 client
//! datagrams, sends one NAK back, and extracts time-insensitive observables.
//! The same script is run through the mirrored world. The observables of the
//! two runs must agree; a disagreement is a machinery error (the mirror no
//! longer represents the loop), never a verdict about a property.

use std::collections::BTreeMap;
use std::net::{IpAddr, Ipv4Addr, SocketAddr, UdpSocket};
use std::sync::Arc;
use std::time::{Duration, Instant};

use srtla_core::priority::CriticalWindow;
use srtla_send::config::DynamicConfig;
use srtla_send::net::SourceIpBinder;
use srtla_send::sender::run_sender_with_config;
use srtla_send::stats::SharedStats;
use srtla_send::subscriptions::SubscriptionHub;

use crate::util::{T0, srt_data};
use crate::world::{Env, FakeReceiver, deliver, established, pkt_type};

const N: u32 = 200;

#[derive(Debug, PartialEq, Eq)]
pub struct Observables {
    /// every injected payload id was forwarded exactly once (unique copies), byte-identical
    pub all_forwarded_once: bool,
    /// per link the payload ids are increasing
    pub per_link_order: bool,
    /// both links carried part of the stream
    pub links_used: usize,
    /// the receiver's NAK reached the client byte-identical
    pub nak_relayed: bool,
    /// both links registered (REG3 answered)
    pub registered: usize,
}

fn judge(per_link: &BTreeMap<usize, Vec<Vec<u8>>>, sent: &[Vec<u8>], nak_relayed: bool, registered: usize) -> Observables {
    let mut count: BTreeMap<Vec<u8>, u32> = BTreeMap::new();
    let mut order_ok = true;
    for v in per_link.values() {
        let mut last: i64 = -1;
        for b in v {
            *count.entry(b.clone()).or_insert(0) += 1;
            if b.len() >= 12 {
                let id = u32::from_be_bytes([b[8], b[9], b[10], b[11]]) as i64;
                if id <= last {
                    order_ok = false;
                }
                last = id;
            }
        }
    }
    let all = sent.iter().all(|s| count.get(s) == Some(&1)) && count.len() == sent.len();
    if std::env::var("VERIF_TRACE").is_ok() {
        let missing: Vec<u32> = sent.iter().filter(|s| !count.contains_key(*s)).map(|s| u32::from_be_bytes([s[8], s[9], s[10], s[11]])).collect();
        let dup: Vec<u32> = count.iter().filter(|(_, n)| **n > 1).map(|(s, _)| u32::from_be_bytes([s[8], s[9], s[10], s[11]])).collect();
        eprintln!("TRACE sent {} distinct-on-wire {} missing {missing:?} dup {dup:?} per-link {:?}", sent.len(), count.len(), per_link.iter().map(|(l, v)| (*l, v.len())).collect::<Vec<_>>());
    }
    Observables {
        all_forwarded_once: all,
        per_link_order: order_ok,
        links_used: per_link.values().filter(|v| !v.is_empty()).count(),
        nak_relayed,
        registered,
    }
}

fn nak_packet(seq: u32) -> Vec<u8> {
    let mut p = vec![0x80u8, 0x03, 0, 0];
    p.extend_from_slice(&seq.to_be_bytes());
    p.extend_from_slice(&[0u8; 8]);
    p
}

/// The script on the real event loop, in real time.
pub fn real_run() -> Result<Observables, String> {
    let rx = UdpSocket::bind("127.0.0.1:0").map_err(|e| e.to_string())?;
    rx.set_read_timeout(Some(Duration::from_millis(20))).ok();
    let rx_addr = rx.local_addr().unwrap();
    let local_port = {
        let s = UdpSocket::bind("127.0.0.1:0").map_err(|e| e.to_string())?;
        s.local_addr().unwrap().port()
    };
    let ips_path = crate::evidence::verif_root().join("target").join(format!(".conformance-ips-{}.txt", std::process::id()));
    std::fs::write(&ips_path, "127.0.0.2\n127.0.0.3\n").map_err(|e| e.to_string())?;
    let ips = ips_path.to_str().unwrap().to_string();
    let (stop_tx, stop_rx) = tokio::sync::oneshot::channel::<()>();
    let handle = std::thread::spawn(move || {
        let rt = tokio::runtime::Builder::new_multi_thread().worker_threads(2).enable_all().build().expect("runtime");
        rt.block_on(async move {
            tokio::select! {
                r = run_sender_with_config(
                    local_port, "127.0.0.1", rx_addr.port(), &ips,
                    DynamicConfig::new(), SharedStats::new(), CriticalWindow::new(), SubscriptionHub::new(),
                    Arc::new(SourceIpBinder),
                ) => { let _ = r; }
                _ = stop_rx => {}
            }
        });
        rt.shutdown_background();
    });
    let link_of = |src: SocketAddr| -> Option<usize> {
        match src.ip() {
            IpAddr::V4(v) if v == Ipv4Addr::new(127, 0, 0, 2) => Some(0),
            IpAddr::V4(v) if v == Ipv4Addr::new(127, 0, 0, 3) => Some(1),
            _ => None,
        }
    };
    let client = UdpSocket::bind("127.0.0.1:0").map_err(|e| e.to_string())?;
    client.set_nonblocking(true).ok();
    let mut rec = FakeReceiver::default();
    let mut known: BTreeMap<usize, SocketAddr> = BTreeMap::new();
    let mut live: std::collections::BTreeSet<usize> = Default::default();
    let mut per_link: BTreeMap<usize, Vec<Vec<u8>>> = BTreeMap::new();
    let mut sent: Vec<Vec<u8>> = Vec::new();
    let mut next = 0u32;
    let mut nak_sent = false;
    let mut nak_relayed = false;
    let mut buf = [0u8; 2048];
    let t0 = Instant::now();
    let mut done_at: Option<Instant> = None;
    let mut last_send = Instant::now();
    while t0.elapsed() < Duration::from_secs(12) {
        // client side: once both links are registered, one datagram per millisecond
        // (a keepalive from a link proves the sender has processed that link's REG3)
        if live.len() == 2 && next < N && last_send.elapsed() >= Duration::from_millis(1) {
            let p = srt_data(5000 + next, false, next, 188);
            let _ = client.send_to(&p, ("127.0.0.1", local_port));
            sent.push(p);
            next += 1;
            last_send = Instant::now();
        }
        if let Ok((n, _)) = client.recv_from(&mut buf) {
            if buf[..n] == nak_packet(5000 + 3)[..] {
                nak_relayed = true;
            }
        }
        match rx.recv_from(&mut buf) {
            Ok((n, src)) => {
                let Some(l) = link_of(src) else { continue };
                let b = buf[..n].to_vec();
                match pkt_type(&b) {
                    Some(0x9200) | Some(0x9201) | Some(0x9000) => {
                        if pkt_type(&b) == Some(0x9000) && known.contains_key(&l) {
                            live.insert(l);
                        }
                        for (_, r) in rec.replies(&[(l, b.clone())]) {
                            if r == [0x92, 0x02] {
                                known.insert(l, src);
                            }
                            let _ = rx.send_to(&r, src);
                        }
                    }
                    _ => {
                        per_link.entry(l).or_default().push(b.clone());
                        // SRTLA ACK for the datagram, on the link it arrived on
                        if b.len() >= 4 {
                            let mut a = vec![0x91u8, 0x00, 0, 0];
                            a.extend_from_slice(&b[0..4]);
                            let _ = rx.send_to(&a, src);
                        }
                        if !nak_sent && per_link.values().map(|v| v.len()).sum::<usize>() > 20 {
                            let _ = rx.send_to(&nak_packet(5000 + 3), src);
                            nak_sent = true;
                        }
                    }
                }
            }
            Err(_) => {}
        }
        let got: usize = per_link.values().map(|v| v.len()).sum();
        if next >= N && got >= N as usize && done_at.is_none() {
            done_at = Some(Instant::now());
        }
        if done_at.is_some_and(|d| d.elapsed() > Duration::from_millis(300)) {
            break;
        }
    }
    let _ = stop_tx.send(());
    let _ = handle.join();
    let _ = std::fs::remove_file(&ips_path);
    Ok(judge(&per_link, &sent, nak_relayed, known.len()))
}

/// The same script through the mirrored world (virtual time).
pub fn mirrored_run() -> Observables {
    let mut env = Env::new();
    let (mut w, mut rec) = established(&mut env, 2, DynamicConfig::new(), T0);
    let _ = &mut rec;
    let mut per_link: BTreeMap<usize, Vec<Vec<u8>>> = BTreeMap::new();
    let mut sent: Vec<Vec<u8>> = Vec::new();
    let mut nak_relayed = false;
    let mut nak_sent = false;
    let ack = |env: &mut Env, w: &mut crate::world::World, wire: &[(usize, Vec<u8>)], per_link: &mut BTreeMap<usize, Vec<Vec<u8>>>| {
        for (l, b) in wire {
            if matches!(pkt_type(b), Some(0x9200) | Some(0x9201) | Some(0x9000)) {
                continue;
            }
            per_link.entry(*l).or_default().push(b.clone());
            let mut a = vec![0x91u8, 0x00, 0, 0];
            a.extend_from_slice(&b[0..4]);
            deliver(env, w, &[(*l, a)]);
        }
    };
    for k in 0..N {
        w.advance(1);
        let p = srt_data(5000 + k, false, k, 188);
        sent.push(p.clone());
        let o = w.arm_client(&mut env, &p);
        ack(&mut env, &mut w, &o.wire, &mut per_link);
        if k % 15 == 14 {
            let t = w.now - T0;
            w.now = T0 + (t / 15 + 1) * 15;
            let o = w.arm_flush(&mut env);
            ack(&mut env, &mut w, &o.wire, &mut per_link);
        }
        if !nak_sent && per_link.values().map(|v| v.len()).sum::<usize>() > 20 {
            let o = w.arm_uplink(&mut env, 0, &nak_packet(5000 + 3));
            nak_relayed = o.client.iter().chain(o.instant.iter()).any(|b| b == &nak_packet(5000 + 3));
            nak_sent = true;
        }
    }
    w.advance(15);
    let o = w.arm_flush(&mut env);
    ack(&mut env, &mut w, &o.wire, &mut per_link);
    let registered = w.connections.iter().filter(|c| c.connected).count();
    judge(&per_link, &sent, nak_relayed, registered)
}

/// `Err` = the mirror and the real loop disagree (machinery error).
pub fn check() -> Result<String, String> {
    let mirror = mirrored_run();
    // the real run is in real time on a shared machine: a run disturbed by scheduling
    // (e.g. a datagram dropped by a full socket buffer) is repeated before it counts
    let mut last = String::new();
    for _ in 0..3 {
        let real = real_run()?;
        if real == mirror {
            return Ok(format!("{real:?}"));
        }
        last = format!("real {real:?}, mirror {mirror:?}");
    }
    Err(format!("glue conformance: the real event loop and the mirror disagree on the time-insensitive observables of the same script (3 attempts): {last}"))
}
