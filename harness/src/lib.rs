//! Model-checking harness for irlserver/srtla_send (see /verif/DESIGN.md).
pub mod conformance;
pub mod e2e;
pub mod realx;
pub mod engine;
pub mod evidence;
pub mod props;
pub mod sched;
pub mod sel;
pub mod util;
pub mod world;
