//! Shared link-state builder for the selector products (C03, C04a, C11).
//!
//! A `Spec` names one value per attribute domain; `build` turns it into a real
//! `SrtlaConnection` using the public constructor, the `test-internals` public
//! fields (selector *inputs*), and — for the guard-private stall state — by
//! running the real selector over a short scripted timeline.

use std::net::{IpAddr, Ipv4Addr};

use rustc_hash::FxHashMap;
use srtla_core::config_snapshot::ConfigSnapshot;
use srtla_core::connection::{LinkPhase, SrtlaConnection};
use srtla_core::mode::SchedulingMode;
use srtla_core::selection::select_connection_idx;

#[derive(Clone, Copy, Debug, PartialEq, Eq, Hash)]
pub enum Life {
    Live,
    Warming,
    Degraded,
    /// REG_ERR then any other datagram: schedulable phase, connected == false
    LiveDisconnected,
    /// mark_for_recovery(): Registering, disconnected, grace 0
    RegisteringAfterReset,
    NeverEstablishedInGrace,
    NeverEstablishedGraceOver,
    /// connected flag set while still Registering
    ConnectedRegistering,
}

pub const LIFE_ALL: [Life; 8] = [
    Life::Live,
    Life::Warming,
    Life::Degraded,
    Life::LiveDisconnected,
    Life::RegisteringAfterReset,
    Life::NeverEstablishedInGrace,
    Life::NeverEstablishedGraceOver,
    Life::ConnectedRegistering,
];

#[derive(Clone, Copy, Debug, PartialEq, Eq, Hash)]
pub enum RxAge {
    Fresh,
    None,
    JustUnderTimeout,
    AtTimeout,
}
pub const RX_ALL: [RxAge; 4] = [RxAge::Fresh, RxAge::None, RxAge::JustUnderTimeout, RxAge::AtTimeout];

#[derive(Clone, Copy, Debug, PartialEq, Eq, Hash)]
pub enum Load {
    Zero,
    UnderMin,
    AtMin,
    Huge,
}
pub const LOAD_ALL: [Load; 4] = [Load::Zero, Load::UnderMin, Load::AtMin, Load::Huge];

#[derive(Clone, Copy, Debug, PartialEq, Eq, Hash)]
pub enum Stall {
    NoProof,
    ProofFresh,
    ProofStale,
    LatchedStale,
    LatchedRecovering,
    Pulled,
}
pub const STALL_ALL: [Stall; 6] = [
    Stall::NoProof,
    Stall::ProofFresh,
    Stall::ProofStale,
    Stall::LatchedStale,
    Stall::LatchedRecovering,
    Stall::Pulled,
];

#[derive(Clone, Copy, Debug, PartialEq, Eq, Hash)]
pub enum Gate {
    None,
    Weak,
    LossDegraded,
}
pub const GATE_ALL: [Gate; 3] = [Gate::None, Gate::Weak, Gate::LossDegraded];

#[derive(Clone, Copy, Debug, PartialEq, Eq, Hash)]
pub enum Cc {
    /// no signal
    Zero,
    /// target so small that any in-flight packet exceeds the cap
    Tiny,
    /// huge target, measured rate == target (soft cap at its floor)
    HugeSaturated,
    /// measured at half the target
    HalfUsed,
    /// measured three times over the target
    Overshoot,
    /// measured at exactly 90% of the target (soft cap exactly at its floor from above)
    At90,
    /// measured at 95% of the target (raw headroom 0.05: below the floor)
    At95,
    /// measured at 99.9% of the target
    At999,
}
pub const CC_3: [Cc; 3] = [Cc::Zero, Cc::Tiny, Cc::HugeSaturated];
pub const CC_ALL: [Cc; 8] = [Cc::Zero, Cc::Tiny, Cc::HugeSaturated, Cc::HalfUsed, Cc::Overshoot, Cc::At90, Cc::At95, Cc::At999];

#[derive(Clone, Copy, Debug, PartialEq, Eq, Hash)]
pub enum Nak {
    Clean,
    OneSecondAgo,
    Burst,
    JustNow,
    Age2900,
    Age3000,
    Age8000,
    Burst4,
    Burst12Old,
}
pub const NAK_3: [Nak; 3] = [Nak::Clean, Nak::OneSecondAgo, Nak::Burst];
pub const NAK_ALL: [Nak; 9] = [
    Nak::Clean,
    Nak::OneSecondAgo,
    Nak::Burst,
    Nak::JustNow,
    Nak::Age2900,
    Nak::Age3000,
    Nak::Age8000,
    Nak::Burst4,
    Nak::Burst12Old,
];

#[derive(Clone, Copy, Debug, PartialEq, Eq, Hash)]
pub struct Spec {
    pub life: Life,
    pub rx: RxAge,
    pub load: Load,
    pub queued: u8,
    pub window: i32,
    pub stall: Stall,
    pub gate: Gate,
    pub cc: Cc,
    pub nak: Nak,
    /// smoothed RTT in ms fed through the real tracker (0 = none)
    pub rtt: u32,
    /// connection age in ms
    pub age: u64,
}

impl Spec {
    pub fn clean() -> Self {
        Spec {
            life: Life::Live,
            rx: RxAge::Fresh,
            load: Load::Zero,
            queued: 0,
            window: 20000,
            stall: Stall::NoProof,
            gate: Gate::None,
            cc: Cc::Zero,
            nak: Nak::Clean,
            rtt: 0,
            age: 60_000,
        }
    }
}

#[derive(Clone, Copy, Debug, PartialEq, Eq, Hash)]
pub struct Thresholds {
    pub min_in_flight: i32,
    pub ceiling_ms: u64,
}

pub const THRESHOLDS: [Thresholds; 4] = [
    Thresholds { min_in_flight: 32, ceiling_ms: 3000 },
    Thresholds { min_in_flight: 1, ceiling_ms: 500 },
    Thresholds { min_in_flight: 0, ceiling_ms: 0 },
    Thresholds { min_in_flight: i32::MAX, ceiling_ms: u64::MAX },
];

pub const TIMEOUTS: [u64; 3] = [1000, 5000, 60000];

/// RTT trackers built from real constant samples, by value of `Spec::rtt`.
pub struct RttLib {
    items: Vec<(u32, srtla_core::connection::RttTracker)>,
}

impl RttLib {
    pub fn new(now: u64) -> Self {
        let mut items = Vec::new();
        for r in [0u32, 20, 50, 200, 400, 2000] {
            let mut c = SrtlaConnection::new_registering(1, "t".into(), IpAddr::V4(Ipv4Addr::LOCALHOST), now);
            if r > 0 {
                for i in 0..12 {
                    c.rtt.update_estimate(r as u64, now - 100 + i);
                }
            }
            items.push((r, c.rtt.clone()));
        }
        Self { items }
    }
    pub fn get(&self, r: u32) -> srtla_core::connection::RttTracker {
        self.items
            .iter()
            .find(|x| x.0 == r)
            .map(|x| x.1.clone())
            .expect("rtt value not in library")
    }
}

pub fn in_flight_of(load: Load, th: Thresholds) -> i32 {
    let m = th.min_in_flight;
    match load {
        Load::Zero => 0,
        Load::UnderMin => {
            if m == i32::MAX {
                31
            } else {
                (m - 1).max(0)
            }
        }
        Load::AtMin => {
            if m == i32::MAX {
                32
            } else {
                m.max(1)
            }
        }
        Load::Huge => 50_000,
    }
}

/// Build the link at virtual time `now`. `th` / `timeout` are the settings the
/// product is being run under (they define "min" and "timeout" of the spec).
pub fn build(idx: usize, sp: &Spec, th: Thresholds, timeout: u64, now: u64, rtts: &RttLib) -> SrtlaConnection {
    let ip = IpAddr::V4(Ipv4Addr::new(127, 0, 0, 1 + idx as u8));
    let created = now.saturating_sub(sp.age).max(1);
    let mut c = SrtlaConnection::new_registering(1000 + idx as u64, format!("L{idx}"), ip, created);
    c.packet_log = FxHashMap::default();
    // start from an established, live link; the stall history is scripted on it first
    c.connected = true;
    c.phase = LinkPhase::Live;
    c.reconnection.connection_established_ms = created;
    c.rtt = rtts.get(sp.rtt);

    // ---- guard-private stall history, by running the real selector earlier
    let helper = ConfigSnapshot {
        mode: SchedulingMode::Classic,
        quality_enabled: false,
        stall_deselect: true,
        stall_min_in_flight: 1,
        stall_ack_stale_ms: 3000,
        conn_timeout_ms: 60_000,
    };
    match sp.stall {
        Stall::NoProof => c.last_ack_or_rtt_sample_ms = 0,
        Stall::ProofFresh => c.last_ack_or_rtt_sample_ms = now,
        Stall::ProofStale => c.last_ack_or_rtt_sample_ms = now.saturating_sub(100_000),
        Stall::LatchedStale | Stall::LatchedRecovering => {
            // scripted on a two-link pool (the link + a healthy sibling), as in production,
            // so the link also carries the `stall_gated` flag the previous select left on it
            let t = now - 5000;
            c.in_flight_packets = 40;
            c.last_received = Some(t);
            c.last_ack_or_rtt_sample_ms = t.saturating_sub(100_000);
            let mut sib = c.clone();
            sib.conn_id = 999;
            sib.in_flight_packets = 0;
            sib.last_ack_or_rtt_sample_ms = 0;
            let mut v = [c, sib.clone()];
            select_connection_idx(&mut v, None, t, &helper);
            let [c2, _] = v;
            c = c2;
            assert!(c.stall_latched(), "scripted latch history did not latch");
            if sp.stall == Stall::LatchedRecovering {
                c.last_ack_or_rtt_sample_ms = now - 20;
                let mut v = [c, sib];
                select_connection_idx(&mut v, None, now - 10, &helper);
                let [c2, _] = v;
                c = c2;
                c.last_ack_or_rtt_sample_ms = now;
            }
        }
        Stall::Pulled => {
            let t = now - 300;
            c.in_flight_packets = 40;
            c.last_received = Some(t - 10_000);
            c.last_ack_or_rtt_sample_ms = t - 10;
            let mut sib = c.clone();
            sib.conn_id = 999;
            sib.in_flight_packets = 0;
            sib.last_received = Some(t);
            sib.last_ack_or_rtt_sample_ms = 0;
            let mut v = [c, sib];
            select_connection_idx(&mut v, None, t, &helper);
            let [c2, _] = v;
            c = c2;
            assert!(c.verif_private().silence_pulled, "scripted silence history did not pull");
            c.last_ack_or_rtt_sample_ms = now;
        }
    }
    // `stall_gated` is left as that earlier select left it (stale): every select must recompute it

    // ---- lifecycle
    match sp.life {
        Life::Live => {}
        Life::Warming => {
            c.phase = LinkPhase::Warming {
                rtt_probes: 0,
                entered_ms: now.saturating_sub(100),
            }
        }
        Life::Degraded => c.phase = LinkPhase::Degraded,
        Life::LiveDisconnected => c.connected = false,
        Life::RegisteringAfterReset => {
            c.connected = false;
            c.phase = LinkPhase::Registering;
            c.reconnection.startup_grace_deadline_ms = 0;
        }
        Life::NeverEstablishedInGrace => {
            c.connected = false;
            c.phase = LinkPhase::Registering;
            c.reconnection.connection_established_ms = 0;
            c.reconnection.startup_grace_deadline_ms = now + 2000;
        }
        Life::NeverEstablishedGraceOver => {
            c.connected = false;
            c.phase = LinkPhase::Registering;
            c.reconnection.connection_established_ms = 0;
            c.reconnection.startup_grace_deadline_ms = now.saturating_sub(1000);
        }
        Life::ConnectedRegistering => {
            c.connected = true;
            c.phase = LinkPhase::Registering;
        }
    }
    // ---- receive age
    c.last_received = match sp.rx {
        RxAge::Fresh => Some(now),
        RxAge::None => None,
        RxAge::JustUnderTimeout => Some(now - (timeout - 1)),
        RxAge::AtTimeout => Some(now - timeout),
    };
    // ---- load
    c.in_flight_packets = in_flight_of(sp.load, th);
    for q in 0..sp.queued {
        c.queue_data_packet(&[0u8, 0, 0, q, 0, 0, 0, 0], Some(q as u32), now);
    }
    c.window = sp.window;
    // ---- quality gates
    c.weak = sp.gate == Gate::Weak;
    c.loss_degraded = sp.gate == Gate::LossDegraded;
    // ---- CC target / measured rate
    match sp.cc {
        Cc::Zero => {
            c.cc_target_bps = 0;
            c.bitrate.current_bitrate_bps = 2_000_000.0;
        }
        Cc::Tiny => {
            c.cc_target_bps = 100_000;
            c.bitrate.current_bitrate_bps = 0.0;
        }
        Cc::HugeSaturated => {
            c.cc_target_bps = 200_000_000;
            c.bitrate.current_bitrate_bps = 200_000_000.0;
        }
        Cc::HalfUsed => {
            c.cc_target_bps = 200_000_000;
            c.bitrate.current_bitrate_bps = 100_000_000.0;
        }
        Cc::Overshoot => {
            c.cc_target_bps = 200_000_000;
            c.bitrate.current_bitrate_bps = 600_000_000.0;
        }
        Cc::At90 => {
            c.cc_target_bps = 200_000_000;
            c.bitrate.current_bitrate_bps = 180_000_000.0;
        }
        Cc::At95 => {
            c.cc_target_bps = 200_000_000;
            c.bitrate.current_bitrate_bps = 190_000_000.0;
        }
        Cc::At999 => {
            c.cc_target_bps = 200_000_000;
            c.bitrate.current_bitrate_bps = 199_800_000.0;
        }
    }
    // ---- NAK history
    let (count, last, burst) = match sp.nak {
        Nak::Clean => (0, 0, 0),
        Nak::OneSecondAgo => (3, now - 1000, 0),
        Nak::Burst => (12, now - 200, 12),
        Nak::JustNow => (1, now, 0),
        Nak::Age2900 => (7, now - 2900, 5),
        Nak::Age3000 => (7, now - 3000, 5),
        Nak::Age8000 => (2, now - 8000, 0),
        Nak::Burst4 => (4, now - 100, 4),
        Nak::Burst12Old => (12, now - 3500, 12),
    };
    c.congestion.nak_count = count;
    c.congestion.last_nak_time_ms = last;
    c.congestion.nak_burst_count = burst;
    c
}

/// The oracle's own time-out rule (from the statement / documented liveness
/// contract): a connected link is timed out once it has heard nothing for the
/// configured timeout; a never-heard connected link is not; a disconnected
/// link is covered by its start-up grace only while it was never established.
pub fn oracle_timed_out(c: &SrtlaConnection, now: u64, timeout: u64) -> bool {
    if c.connected {
        return match c.last_received {
            Some(lr) => now.saturating_sub(lr) >= timeout,
            None => false,
        };
    }
    if c.reconnection.connection_established_ms == 0 && now < c.reconnection.startup_grace_deadline_ms {
        return false;
    }
    match c.last_received {
        Some(lr) => now.saturating_sub(lr) >= timeout,
        None => true,
    }
}

pub fn oracle_usable(c: &SrtlaConnection, now: u64, timeout: u64) -> bool {
    !matches!(c.phase, LinkPhase::Registering) && c.connected && !oracle_timed_out(c, now, timeout)
}

pub fn cfg(
    mode: SchedulingMode,
    quality: bool,
    guard: bool,
    th: Thresholds,
    timeout: u64,
) -> ConfigSnapshot {
    ConfigSnapshot {
        mode,
        quality_enabled: quality,
        stall_deselect: guard,
        stall_min_in_flight: th.min_in_flight,
        stall_ack_stale_ms: th.ceiling_ms,
        conn_timeout_ms: timeout,
    }
}

pub fn describe(sp: &Spec) -> String {
    format!("{sp:?}")
}
