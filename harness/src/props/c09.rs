//! C09 — return path relays receiver traffic to the SRT client unmodified.
//!
//! Product enumeration of byte strings x link states through the real uplink
//! arm (`handle_uplink_packet` -> `process_uplink_packet` -> parsers ->
//! `process_connection_events` -> real `send_to` on the listener socket); the
//! simulated client socket is read back after every injection.

use std::panic::{AssertUnwindSafe, catch_unwind};
use std::sync::Mutex;
use std::sync::atomic::{AtomicU64, Ordering};

use serde_json::{Value, json};
use srtla_send::config::DynamicConfig;

use crate::engine::{Fail, hash_of, par_map};
use crate::evidence::{Report, Tier, Violation};
use crate::util::{T0, progress, srt_data};
use crate::world::*;

const STATE_NAMES: [&str; 9] = [
    "registering-in-grace/no-client",
    "registering-in-grace/client-known",
    "warming/no-client",
    "warming/client-known",
    "live-idle/client-known",
    "live-with-outstanding-numbers/client-known",
    "live-awaiting-keepalive-echo/client-known",
    "link0-stall-latched/client-known",
    "live-idle/no-client",
];

/// Sequence numbers outstanding in state 5: link 0 holds 7000..7003, link 1 holds 7100..7103,
/// both hold 7200 (a duplicate probe situation).
fn build_state(env: &mut Env, i: usize) -> World {
    let cfg = DynamicConfig::new();
    match i {
        0 | 1 => {
            let (mut w, _) = World::cold_start(env, 2, cfg, T0);
            if i == 1 {
                w.advance(10);
                w.arm_client(env, &srt_data(10, false, 1, 64));
                w.arm_flush(env);
            }
            w
        }
        2 | 3 => {
            let (mut w, _) = established(env, 2, cfg, T0);
            if i == 3 {
                w.advance(10);
                w.arm_client(env, &srt_data(10, false, 1, 64));
                w.arm_flush(env);
            }
            w
        }
        _ => {
            let (mut w, mut rec) = established(env, 2, cfg, T0);
            // two keepalive round trips: Warming -> Live, RTT baseline
            for _ in 0..3 {
                w.advance(1000);
                let o = w.arm_housekeeping(env);
                let r = rec.replies(&o.wire);
                w.advance(20);
                deliver(env, &mut w, &r);
            }
            if i != 8 {
                w.advance(10);
                w.arm_client(env, &srt_data(10, false, 1, 64));
                w.arm_flush(env);
            }
            match i {
                5 => {
                    // register known numbers on chosen links through the production path
                    for (l, seqs) in [(0usize, vec![7000u32, 7001, 7002, 7003, 7200]), (1, vec![7100, 7101, 7102, 7103, 7200])] {
                        for s in seqs {
                            let p = srt_data(s, false, s, 48);
                            w.connections[l].queue_data_packet(&p, Some(s), w.now);
                        }
                    }
                    w.advance(15);
                    w.arm_flush(env);
                }
                6 => {
                    // housekeeping far enough after the last RTT sample that the keepalive arms a probe
                    w.advance(4000);
                    let o = w.arm_housekeeping(env);
                    let _ = o;
                    assert!(
                        w.connections.iter().any(|c| c.rtt.waiting_for_keepalive_response),
                        "scripted state: no keepalive probe outstanding"
                    );
                    // keep both links alive (not timed out)
                    for c in w.connections.iter_mut() {
                        let _ = c;
                    }
                }
                7 => {
                    // link 0 loaded, proof stale -> latched by the real selector via client packets
                    w.config.set_conn_timeout_ms(60_000);
                    for s in 0..40u32 {
                        let p = srt_data(8000 + s, false, s, 48);
                        w.connections[0].queue_data_packet(&p, Some(8000 + s), w.now);
                    }
                    w.arm_flush(env);
                    w.connections[0].last_ack_or_rtt_sample_ms = w.now - 1; // proof existed ...
                    w.advance(4000); // ... and went stale
                    w.connections[1].last_received = Some(w.now);
                    w.arm_client(env, &srt_data(11, false, 2, 64));
                    w.arm_flush(env);
                    assert!(w.connections[0].stall_latched(), "scripted state: link 0 not latched");
                }
                _ => {}
            }
            w
        }
    }
}

fn be32(b: &[u8], o: usize) -> u32 {
    u32::from_be_bytes([b[o], b[o + 1], b[o + 2], b[o + 3]])
}

fn internal(ty: u16) -> bool {
    matches!(ty, 0x9201 | 0x9202 | 0x9210 | 0x9211 | 0x9100 | 0x9000)
}
fn registration(ty: u16) -> bool {
    matches!(ty, 0x9201 | 0x9202 | 0x9210 | 0x9211)
}

/// Inject `bytes` on link `idx` of a clone of `base` and judge the outcome.
fn judge(env: &mut Env, base: &World, idx: usize, bytes: &[u8]) -> Result<u64, Fail> {
    let mut w = base.clone();
    judge_step(env, &mut w, idx, bytes)
}

/// Inject `bytes` on link `idx` of `w` (which keeps the resulting state) and judge the outcome.
fn judge_step(env: &mut Env, w: &mut World, idx: usize, bytes: &[u8]) -> Result<u64, Fail> {
    w.advance(7);
    let now = w.now;
    let client_known = w.last_client_addr.is_some();
    let pre: Vec<(u64, Option<u64>, Vec<i32>, bool, bool)> = w
        .connections
        .iter()
        .map(|c| {
            (
                c.last_ack_or_rtt_sample_ms,
                c.last_received,
                c.packet_log.keys().copied().collect(),
                c.rtt.waiting_for_keepalive_response,
                c.connected,
            )
        })
        .collect();
    let out = match catch_unwind(AssertUnwindSafe(|| w.arm_uplink(env, idx, bytes))) {
        Ok(o) => o,
        Err(_) => {
            return Err(Fail::new("uplink-path-panic", format!("processing a datagram of {} bytes panicked", bytes.len())));
        }
    };
    let show = || format!("len={} bytes[..{}]={:02x?} on link {idx}", bytes.len(), bytes.len().min(24), &bytes[..bytes.len().min(24)]);
    let delivered: Vec<&Vec<u8>> = out.client.iter().chain(out.instant.iter()).collect();
    if bytes.len() < 2 {
        if !delivered.is_empty() {
            return Err(Fail::new("short-datagram-relayed", format!("{}: {} datagrams reached the client", show(), delivered.len())));
        }
        for (l, c) in w.connections.iter().enumerate() {
            if c.last_received != pre[l].1 || c.last_ack_or_rtt_sample_ms != pre[l].0 {
                return Err(Fail::new("short-datagram-changed-state", format!("{}: link {l} stamps changed", show())));
            }
        }
        return Ok(hash_of(&(0u8, client_known)));
    }
    let ty = ((bytes[0] as u16) << 8) | bytes[1] as u16;
    // relay rule
    if !client_known {
        if !delivered.is_empty() {
            return Err(Fail::new("relayed-without-client-address", format!("{}: {} datagrams sent although no client address is known", show(), delivered.len())));
        }
    } else if internal(ty) {
        if !delivered.is_empty() {
            return Err(Fail::new("internal-datagram-relayed", format!("{}: SRTLA-internal datagram (type {ty:#06x}) reached the client", show())));
        }
    } else {
        if delivered.is_empty() {
            return Err(Fail::new("datagram-not-relayed", format!("{}: type {ty:#06x} did not reach the client", show())));
        }
        for d in &delivered {
            if d.as_slice() != bytes {
                return Err(Fail::new("relayed-datagram-modified", format!("{}: client received {} bytes {:02x?}", show(), d.len(), &d[..d.len().min(24)])));
            }
        }
    }
    // liveness stamp
    if !registration(ty) && w.connections[idx].last_received != Some(now) {
        return Err(Fail::new(
            "liveness-stamp-not-refreshed",
            format!("{}: last_received is {:?}, now {now}", show(), w.connections[idx].last_received),
        ));
    }
    // nothing is sent on the uplinks in response, except the immediate REG1 after a REG_NGP
    if !out.wire.is_empty() && ty != 0x9211 {
        return Err(Fail::new(
            "unexpected-uplink-send",
            format!("{}: {} datagrams appeared on the uplinks: {:?}", show(), out.wire.len(), out.wire.iter().map(|(l, b)| format!("{l}:{:02x?}", &b[..b.len().min(12)])).collect::<Vec<_>>()),
        ));
    }
    // delivery-proof stamp: which links may / must change
    let n = w.connections.len();
    let mut must = vec![false; n];
    let mut may = vec![false; n];
    if ty == 0x9100 && bytes.len() >= 8 {
        let mut logs: Vec<Vec<i32>> = pre.iter().map(|p| p.2.clone()).collect();
        for k in 1..bytes.len() / 4 {
            let s = be32(bytes, k * 4) as i32;
            if let Some(p) = logs[idx].iter().position(|x| *x == s) {
                logs[idx].swap_remove(p);
                must[idx] = true;
                may[idx] = true;
            } else {
                let holders: Vec<usize> = (0..n).filter(|j| *j != idx && logs[*j].contains(&s)).collect();
                if let Some(&h) = holders.first() {
                    // "one other holder": accept any; the log bookkeeping follows the first
                    for j in &holders {
                        may[*j] = true;
                    }
                    if holders.len() == 1 {
                        must[h] = true;
                    }
                    let p = logs[h].iter().position(|x| *x == s).unwrap();
                    logs[h].swap_remove(p);
                }
            }
        }
    }
    if ty == 0x9000 && bytes.len() >= 10 && pre[idx].3 {
        let ts = u64::from_be_bytes(bytes[2..10].try_into().unwrap());
        let rtt = now.saturating_sub(ts);
        if ts <= now && rtt > 0 && rtt <= 10_000 {
            must[idx] = true;
            may[idx] = true;
        }
    }
    let mut changed_mask = 0u32;
    for l in 0..n {
        let changed = w.connections[l].last_ack_or_rtt_sample_ms != pre[l].0;
        if changed {
            changed_mask |= 1 << l;
        }
        if changed && !may[l] {
            return Err(Fail::new(
                "delivery-proof-stamped-without-proof",
                format!("{}: link {l}'s delivery-proof stamp moved {} -> {} without an earned SRTLA ACK or an answered keepalive", show(), pre[l].0, w.connections[l].last_ack_or_rtt_sample_ms),
            ));
        }
        if !changed && must[l] {
            return Err(Fail::new(
                "delivery-proof-not-stamped",
                format!("{}: link {l} earned delivery proof but its stamp stayed {}", show(), pre[l].0),
            ));
        }
    }
    // outcome class: known type code (or 0), length class, deliveries, proof/liveness effects, link state
    let ty_class = if KNOWN.contains(&ty) { ty } else { 0 };
    let len_class = match bytes.len() {
        0..=7 => 0u8,
        8..=9 => 1,
        10..=19 => 2,
        20..=37 => 3,
        _ => 4,
    };
    Ok(hash_of(&(
        ty_class,
        len_class,
        delivered.len().min(2),
        changed_mask,
        client_known,
        w.connections[idx].connected,
        w.connections.iter().map(|c| c.in_flight_packets).collect::<Vec<_>>(),
        out.wire.len(),
    )))
}

fn tail(kind: usize, len: usize) -> Vec<u8> {
    match kind {
        0 => vec![0u8; len],
        1 => vec![0xffu8; len],
        2 => (0..len).map(|i| [0x80u8, 0, 0, 1][i % 4]).collect(),
        _ => (0..len).map(|i| i as u8).collect(),
    }
}

const KNOWN: [u16; 16] = [
    0x9000, 0x9100, 0x9200, 0x9201, 0x9202, 0x9210, 0x9211, 0x9212, 0x8000, 0x8002, 0x8003, 0x8005,
    0x0000, 0x7fff, 0x8001, 0xffff,
];

/// Inputs that do not depend on the type-code sweep: all lengths 0..=64 for 16
/// type codes x 4 tails, exhaustive tails over {00,7f,80,ff} up to 6 bytes,
/// and crafted ACK / NAK / keepalive datagrams that refer to the link state.
fn structured(now_hint: u64) -> Vec<Vec<u8>> {
    let mut v: Vec<Vec<u8>> = vec![vec![], vec![0x90], vec![0x80], vec![0x00], vec![0xff]];
    for ty in KNOWN {
        for len in 2..=64usize {
            for tk in 0..4 {
                let mut b = tail(tk, len);
                b[0] = (ty >> 8) as u8;
                b[1] = ty as u8;
                v.push(b);
            }
        }
        for len in [258usize, 1316, 1500] {
            let mut b = tail(3, len);
            b[0] = (ty >> 8) as u8;
            b[1] = ty as u8;
            v.push(b);
        }
        // exhaustive short tails
        let alpha = [0x00u8, 0x7f, 0x80, 0xff];
        for len in 3..=6usize {
            let k = len - 2;
            for code in 0..4usize.pow(k as u32) {
                let mut b = vec![(ty >> 8) as u8, ty as u8];
                let mut c = code;
                for _ in 0..k {
                    b.push(alpha[c % 4]);
                    c /= 4;
                }
                v.push(b);
            }
        }
    }
    // SRTLA ACK lists over numbers held by link 0 / link 1 / both / nobody
    let nums = [7000u32, 7003, 7100, 7200, 9999, 0x8000_1b58];
    for a in nums {
        for b in nums {
            for c in [None, Some(7001u32), Some(7200)] {
                let mut p = vec![0x91u8, 0x00, 0, 0];
                p.extend_from_slice(&a.to_be_bytes());
                p.extend_from_slice(&b.to_be_bytes());
                if let Some(c) = c {
                    p.extend_from_slice(&c.to_be_bytes());
                }
                v.push(p.clone());
                p.push(0x55); // trailing byte
                v.push(p);
            }
        }
    }
    // SRT ACK (cumulative) current / stale / far, NAK single / range / unknown
    for a in [7001u32, 6000, 7300, 0x7fff_ffff] {
        let mut p = vec![0u8; 44];
        p[0] = 0x80;
        p[1] = 0x02;
        p[16..20].copy_from_slice(&a.to_be_bytes());
        v.push(p);
    }
    for (a, b) in [(7000u32, None), (7100, None), (4242, None), (7000, Some(7003u32)), (7000, Some(9000)), (5, Some(4))] {
        let mut p = vec![0x80u8, 0x03, 0, 0];
        match b {
            None => p.extend_from_slice(&a.to_be_bytes()),
            Some(e) => {
                p.extend_from_slice(&(a | 0x8000_0000).to_be_bytes());
                p.extend_from_slice(&e.to_be_bytes());
            }
        }
        p.extend_from_slice(&a.to_be_bytes());
        v.push(p);
    }
    // keepalive echoes around the sample filter
    for len in [9usize, 10, 11, 38, 64] {
        for dts in [0i64, 1, 20, 10_000, 10_001, -5, i64::MIN] {
            let ts: u64 = if dts == i64::MIN { 0 } else { (now_hint as i64 + 7 - dts) as u64 };
            let mut p = vec![0x5au8; len];
            p[0] = 0x90;
            p[1] = 0x00;
            for (i, x) in ts.to_be_bytes().iter().enumerate() {
                if 2 + i < len {
                    p[2 + i] = *x;
                }
            }
            v.push(p);
        }
    }
    // handshake replies
    v.push(vec![0x92, 0x02]);
    v.push(vec![0x92, 0x10]);
    v.push(vec![0x92, 0x11]);
    let mut r2 = vec![0x92u8, 0x01];
    r2.extend(std::iter::repeat_n(0x33u8, 256));
    v.push(r2.clone());
    r2.truncate(257);
    v.push(r2);
    v
}

/// Acknowledgement-shaped datagrams over boundary numbers, for the two- and three-step histories
/// (the accounting a datagram meets depends on what earlier datagrams left behind).
fn boundary_datagrams() -> Vec<Vec<u8>> {
    let nums: [u32; 10] = [0, 1, 999, 7000, 7200, 0x3fff_ffff, 0x7fff_ffff, 0x8000_0000, 0x8000_0001, 0xffff_ffff];
    let mut v = Vec::new();
    for q in nums {
        // SRT ACK (44 bytes, number at 16..20)
        let mut a = vec![0u8; 44];
        a[0] = 0x80;
        a[1] = 0x02;
        a[16..20].copy_from_slice(&q.to_be_bytes());
        v.push(a);
        // SRTLA ACK with two numbers
        let mut b = vec![0x91u8, 0x00, 0, 0];
        b.extend_from_slice(&q.to_be_bytes());
        b.extend_from_slice(&q.wrapping_add(1).to_be_bytes());
        v.push(b);
        // SRT NAK: the number alone, and as the opener of a range
        let mut c = vec![0x80u8, 0x03, 0, 0, 0, 0, 0, 0, 0, 0, 0, 0, 0, 0, 0, 0];
        c.extend_from_slice(&q.to_be_bytes());
        v.push(c);
        let mut d = vec![0x80u8, 0x03, 0, 0, 0, 0, 0, 0, 0, 0, 0, 0, 0, 0, 0, 0];
        d.extend_from_slice(&(q | 0x8000_0000).to_be_bytes());
        d.extend_from_slice(&q.wrapping_add(3).to_be_bytes());
        v.push(d);
    }
    v
}

/// All histories of `depth` boundary datagrams (alternating links) from `base`; every step is judged.
fn histories(env: &mut Env, base: &World, lib: &[Vec<u8>], first: usize, depth: usize, fails: &mut Vec<(Vec<usize>, Fail)>) -> u64 {
    fn rec(env: &mut Env, w: &World, lib: &[Vec<u8>], path: &mut Vec<usize>, depth: usize, n: &mut u64, fails: &mut Vec<(Vec<usize>, Fail)>) {
        if path.len() == depth {
            return;
        }
        for i in 0..lib.len() {
            let mut w2 = w.clone();
            path.push(i);
            *n += 1;
            let link = path.len() % 2;
            match catch_unwind(AssertUnwindSafe(|| judge_step(env, &mut w2, link, &lib[i]))) {
                Ok(Ok(_)) => rec(env, &w2, lib, path, depth, n, fails),
                Ok(Err(f)) => {
                    if fails.len() < 6 {
                        fails.push((path.clone(), f));
                    }
                }
                Err(_) => {
                    if fails.len() < 6 {
                        fails.push((path.clone(), Fail::new("uplink-path-panic", format!("processing datagram {} of the history panicked", path.len()))));
                    }
                    // a panic may leave datagrams in the environment's sockets and channels: start afresh
                    *env = Env::new();
                }
            }
            path.pop();
        }
    }
    let mut n = 1u64;
    let mut w = base.clone();
    let mut path = vec![first];
    match catch_unwind(AssertUnwindSafe(|| judge_step(env, &mut w, 1, &lib[first]))) {
        Ok(Ok(_)) => rec(env, &w, lib, &mut path, depth, &mut n, fails),
        Ok(Err(f)) => fails.push((path.clone(), f)),
        Err(_) => fails.push((path.clone(), Fail::new("uplink-path-panic", "processing datagram 1 of the history panicked".into()))),
    }
    n
}

/// A tagged non-internal datagram for the backlog exploration (the tag makes every one distinct).
fn tagged(i: u32) -> Vec<u8> {
    let mut b = match i % 4 {
        // SRT ACKACK, SRT keepalive, SRT shutdown-like control, an SRT data packet from the receiver
        0 => vec![0x80, 0x06, 0, 0],
        1 => vec![0x80, 0x01, 0, 0],
        2 => vec![0x80, 0x07, 0, 0],
        _ => vec![0x00, 0x00, 0x10, 0x00],
    };
    b.extend_from_slice(&[0u8; 4]);
    b.extend_from_slice(&(0xB0000000u32 + i).to_be_bytes());
    b.extend_from_slice(&[0x5a; 8]);
    b
}

/// Backlog exploration: `n` datagrams are waiting on the uplink channel (what the reader tasks do
/// while the loop is busy) when an arm runs; arms of kind `arm` are then repeated. Every queued
/// datagram must reach the client, byte-identical, and nothing else may.
fn backlog(env: &mut Env, base: &World, n: u32, arm: usize) -> Result<u64, Fail> {
    while env.packet_rx.try_recv().is_ok() {}
    let mut w = base.clone();
    w.advance(3);
    let want: Vec<Vec<u8>> = (0..n).map(tagged).collect();
    for (i, b) in want.iter().enumerate() {
        w.enqueue_uplink(env, i % 2, b);
    }
    let mut got: Vec<Vec<u8>> = Vec::new();
    let mut own: Vec<Vec<u8>> = Vec::new();
    let rounds = n as usize / 64 + 3;
    for r in 0..rounds {
        w.advance(1);
        let out = match arm {
            0 => {
                let b = tagged(100_000 + r as u32);
                own.push(b.clone());
                w.arm_uplink(env, r % 2, &b)
            }
            1 => w.arm_client(env, &srt_data(20 + r as u32, false, 2, 64)),
            _ => w.arm_housekeeping(env),
        };
        got.extend(out.client.iter().cloned());
        got.extend(out.instant.iter().cloned());
    }
    while env.packet_rx.try_recv().is_ok() {}
    let mut count: std::collections::BTreeMap<&Vec<u8>, u32> = Default::default();
    for g in &got {
        *count.entry(g).or_insert(0) += 1;
    }
    let arm_name = ["uplink", "client", "housekeeping"][arm];
    let missing: Vec<usize> = want.iter().enumerate().filter(|(_, b)| !count.contains_key(b)).map(|(i, _)| i).collect();
    if !missing.is_empty() {
        return Err(Fail::new(
            "queued-datagram-never-relayed",
            format!("{n} datagrams waiting on the uplink channel, then {rounds} {arm_name} arms: queue positions {:?} never reached the client", &missing[..missing.len().min(8)]),
        ));
    }
    for g in &got {
        if !want.contains(g) && !own.contains(g) {
            return Err(Fail::new("backlog-relayed-unknown-datagram", format!("{n} queued, {arm_name} arms: the client received a datagram nobody sent: {:02x?}", &g[..g.len().min(24)])));
        }
    }
    // per-link order of the relayed copies follows the queue order
    for l in 0..2usize {
        let idx: Vec<usize> = got.iter().filter_map(|g| want.iter().position(|b| b == g)).filter(|i| i % 2 == l).collect();
        if idx.windows(2).any(|p| p[1] < p[0]) {
            return Err(Fail::new("backlog-relayed-out-of-order", format!("{n} queued, {arm_name} arms: datagrams read from link {l} reached the client out of order")));
        }
    }
    Ok(hash_of(&(n, arm, got.len())))
}

pub fn run(tier: Tier) -> Report {
    let mut rep = Report::new();
    crate::realx::run_for(&mut rep, "C09", tier.is_quick());
    if let Err(e) = glue_fingerprint() {
        rep.machinery_errors.push(format!("{e} (the mirrored explorations were skipped; the real-loop explorations above were run)"));
        return rep;
    }
    let quick = tier.is_quick();
    let states: Vec<usize> = if quick { vec![1, 3, 5, 6, 8] } else { (0..STATE_NAMES.len()).collect() };
    let sweep_lens: Vec<usize> = if quick { vec![2, 4, 9, 10, 20, 38, 258] } else { vec![2, 3, 4, 7, 8, 9, 10, 12, 16, 19, 20, 24, 38, 64, 65, 258, 1316, 1500] };
    let sweep_tails: Vec<usize> = if quick { vec![3] } else { vec![0, 1, 2, 3] };
    let n_inj = AtomicU64::new(0);
    let distinct: Mutex<std::collections::HashSet<u64>> = Mutex::new(Default::default());
    let fails: Mutex<Vec<Violation>> = Mutex::new(Vec::new());
    let fail_n: Mutex<std::collections::BTreeMap<String, u64>> = Mutex::new(Default::default());
    let record = |st: usize, idx: usize, bytes: &[u8], f: Fail| {
        *fail_n.lock().unwrap().entry(f.key.clone()).or_insert(0) += 1;
        let mut v = fails.lock().unwrap();
        if v.iter().filter(|x| x.key == f.key).count() < 3 {
            v.push(Violation {
                key: f.key.clone(),
                message: format!("state {}: {}", STATE_NAMES[st], f.msg),
                replay: json!({"state": st, "link": idx, "bytes": bytes}),
            });
        }
    };
    progress("C09", "type-code sweep + structured inputs through the uplink arm");
    // job = (state, high byte of the type code); job hi==256 runs the structured inputs
    let jobs: Vec<(usize, usize)> = states.iter().flat_map(|s| (0..=256usize).map(move |h| (*s, h))).collect();
    par_map(jobs.len(), 16, |j| {
        let (st, hi) = jobs[j];
        let mut env = Env::new();
        let base = build_state(&mut env, st);
        let mut local: Vec<u64> = Vec::new();
        let mut run_one = |env: &mut Env, idx: usize, b: &[u8]| {
            n_inj.fetch_add(1, Ordering::Relaxed);
            match judge(env, &base, idx, b) {
                Ok(h) => local.push(h),
                Err(f) => record(st, idx, b, f),
            }
        };
        if hi == 256 {
            for b in structured(base.now) {
                for idx in 0..2 {
                    run_one(&mut env, idx, &b);
                }
            }
        } else {
            for lo in 0..=255u8 {
                for &len in &sweep_lens {
                    for &tk in &sweep_tails {
                        let mut b = tail(tk, len);
                        b[0] = hi as u8;
                        b[1] = lo;
                        run_one(&mut env, (lo as usize) & 1, &b);
                    }
                }
            }
        }
        distinct.lock().unwrap().extend(local);
    });
    progress("C09", "two- and three-step histories of boundary acknowledgements");
    let lib = boundary_datagrams();
    let hist_depth = if quick { 2 } else { 3 };
    let hist_states: Vec<usize> = if quick { vec![4, 5] } else { vec![1, 3, 4, 5, 6, 7] };
    let hist_jobs: Vec<(usize, usize)> = hist_states.iter().flat_map(|s| (0..lib.len()).map(move |f| (*s, f))).collect();
    par_map(hist_jobs.len(), 16, |j| {
        let (st, first) = hist_jobs[j];
        let mut env = Env::new();
        let base = build_state(&mut env, st);
        let mut fl = Vec::new();
        let n = histories(&mut env, &base, &lib, first, hist_depth, &mut fl);
        n_inj.fetch_add(n, Ordering::Relaxed);
        for (path, f) in fl {
            *fail_n.lock().unwrap().entry(f.key.clone()).or_insert(0) += 1;
            let mut v = fails.lock().unwrap();
            if v.iter().filter(|x| x.key == f.key).count() < 3 {
                v.push(Violation {
                    key: f.key.clone(),
                    message: format!("state {}: history of {} boundary datagrams {:?}: {}", STATE_NAMES[st], path.len(), path.iter().map(|i| format!("{:02x?}", &lib[*i][..lib[*i].len().min(24)])).collect::<Vec<_>>(), f.msg),
                    replay: json!({"exploration": "history", "state": st, "path": path}),
                });
            }
        }
    });
    rep.set("histories", json!({"library": lib.len(), "depth": hist_depth, "states": hist_states.iter().map(|s| STATE_NAMES[*s]).collect::<Vec<_>>(), "numbers": "0, 1, 999, 7000, 7200, 0x3fffffff, 0x7fffffff, 0x80000000, 0x80000001, 0xffffffff as SRT ACK / SRTLA ACK pair / NAK / NAK range opener"}));
    progress("C09", "uplink-channel backlog exploration");
    let max_backlog: u32 = if quick { 200 } else { 600 };
    let bl_states: Vec<usize> = if quick { vec![4] } else { vec![3, 4, 5, 7] };
    let bl_jobs: Vec<(usize, u32, usize)> = bl_states.iter().flat_map(|s| (0..=max_backlog).flat_map(move |n| (0..3usize).map(move |a| (*s, n, a)))).collect();
    let bl_chunks: Vec<&[(usize, u32, usize)]> = bl_jobs.chunks(40).collect();
    par_map(bl_chunks.len(), 16, |j| {
        let mut env = Env::new();
        let mut cur: Option<(usize, World)> = None;
        let mut local: Vec<u64> = Vec::new();
        for &(st, n, arm) in bl_chunks[j] {
            if cur.as_ref().map(|c| c.0) != Some(st) {
                cur = Some((st, build_state(&mut env, st)));
            }
            n_inj.fetch_add(n as u64 + 1, Ordering::Relaxed);
            match catch_unwind(AssertUnwindSafe(|| backlog(&mut env, &cur.as_ref().unwrap().1, n, arm))) {
                Ok(Ok(h)) => local.push(h),
                Ok(Err(f)) => {
                    *fail_n.lock().unwrap().entry(f.key.clone()).or_insert(0) += 1;
                    let mut v = fails.lock().unwrap();
                    if v.iter().filter(|x| x.key == f.key).count() < 3 {
                        v.push(Violation { key: f.key.clone(), message: format!("state {}: {}", STATE_NAMES[st], f.msg), replay: json!({"exploration": "backlog", "state": st, "n": n, "arm": arm}) });
                    }
                }
                Err(_) => {
                    *fail_n.lock().unwrap().entry("uplink-path-panic".into()).or_insert(0) += 1;
                    fails.lock().unwrap().push(Violation { key: "uplink-path-panic".into(), message: format!("backlog of {n} datagrams panicked"), replay: json!({"exploration": "backlog", "state": st, "n": n, "arm": arm}) });
                }
            }
        }
        distinct.lock().unwrap().extend(local);
    });
    rep.set("backlog", json!({"queued_datagrams": format!("0..={max_backlog}"), "arms": ["uplink", "client", "housekeeping"], "states": bl_states.iter().map(|s| STATE_NAMES[*s]).collect::<Vec<_>>(), "runs": bl_jobs.len()}));
    let n = n_inj.load(Ordering::Relaxed);
    rep.states += distinct.lock().unwrap().len() as u64;
    rep.transitions += n;
    rep.traces += n;
    rep.set("injections", json!(n));
    rep.set("link_states", json!(states.iter().map(|s| STATE_NAMES[*s]).collect::<Vec<_>>()));
    rep.set("sweep", json!({"type_codes": 65536, "lengths": sweep_lens, "tails": sweep_tails.len(), "structured_inputs_per_state_and_link": structured(T0).len()}));
    rep.samples.push(json!({"state": STATE_NAMES[5], "link": 0, "bytes_hex": "9100 0000 00001b58 00001c20 (SRTLA ACK: 7000 held by link 0, 7200 held by both)"}));
    rep.samples.push(json!({"state": STATE_NAMES[6], "link": 1, "bytes_hex": "9000 <now-20 as u64> (keepalive echo while a probe is outstanding)"}));
    rep.set("oracle", json!("internal := type in {9201,9202,9210,9211,9100,9000}; client known and len>=2: not internal => client receives >=1 datagram, all byte-identical to the injected one; internal => nothing; no client => nothing; 0/1-byte datagrams change nothing; every non-registration datagram of >=2 bytes stamps last_received = now; the delivery-proof stamp of any link changes iff an SRTLA ACK retired a number from that link's log (arrival link first, else one other holder) or the arrival link got a keepalive echo of >=10 bytes while a probe was outstanding with 0 < now-ts <= 10000; nothing is sent on the uplinks except the immediate REG1 after REG_NGP; no panic (sweep runs in a child process, arithmetic overflow checks on). Histories: every sequence of 2 (thorough: 3) acknowledgement-shaped datagrams over boundary numbers, each step judged by the same rules. Backlog: with n tagged non-internal datagrams waiting on the uplink channel (alternating links), repeated arms of one kind relay every one of them byte-identical, nothing else, per-link in queue order"));
    rep.assume("byte strings: all 65536 type codes at the listed lengths and tails, all lengths 0..=64 for 16 type codes x 4 tails, all tails over {00,7f,80,ff} up to 6 bytes, crafted ACK/NAK/keepalive/handshake datagrams referring to the link state; not random long inputs");
    rep.assume("the select! glue is mirrored (world.rs) and bound by a call-order + token digest fingerprint; reader tasks / recvmmsg batching are not exercised (datagrams are injected as UplinkPacket, singly through the uplink arm or as a backlog on the channel that the arms' real drain_packet_queue works off)");
    for v in fails.lock().unwrap().drain(..) {
        rep.violations.push(v);
    }
    for (k, n) in fail_n.lock().unwrap().iter() {
        rep.count_violation(k, *n);
    }
    rep
}

pub fn replay(v: &Value) -> Result<(), String> {
    if let Some(r) = crate::realx::replay_for("C09", v) {
        return r;
    }
    let st = v["state"].as_u64().ok_or("MACHINERY: no state")? as usize;
    if v["exploration"] == "history" {
        let lib = boundary_datagrams();
        let path: Vec<usize> = v["path"].as_array().ok_or("MACHINERY: no path")?.iter().map(|x| x.as_u64().unwrap_or(0) as usize).collect();
        let run = || -> Option<Fail> {
            let mut env = Env::new();
            let mut w = build_state(&mut env, st);
            for (k, i) in path.iter().enumerate() {
                let link = if k == 0 { 1 } else { (k + 1) % 2 };
                match catch_unwind(AssertUnwindSafe(|| judge_step(&mut env, &mut w, link, &lib[*i]))) {
                    Ok(Ok(_)) => {}
                    Ok(Err(f)) => return Some(f),
                    Err(_) => return Some(Fail::new("uplink-path-panic", format!("processing datagram {} of the history panicked", k + 1))),
                }
            }
            None
        };
        let (r1, r2) = (run(), run());
        if r1.as_ref().map(|f| f.key.clone()) != r2.as_ref().map(|f| f.key.clone()) {
            return Err("MACHINERY: two replays disagree".into());
        }
        return match r1 {
            None => Ok(()),
            Some(f) => Err(format!("[{}] {}", f.key, f.msg)),
        };
    }
    if v["exploration"] == "backlog" {
        let n = v["n"].as_u64().ok_or("MACHINERY: no n")? as u32;
        let arm = v["arm"].as_u64().unwrap_or(0) as usize;
        let mut env = Env::new();
        let base = build_state(&mut env, st);
        let r1 = backlog(&mut env, &base, n, arm);
        let r2 = backlog(&mut env, &base, n, arm);
        if r1.as_ref().err().map(|f| f.key.clone()) != r2.as_ref().err().map(|f| f.key.clone()) {
            return Err("MACHINERY: two replays disagree".into());
        }
        return r1.map(|_| ()).map_err(|f| format!("[{}] {}", f.key, f.msg));
    }
    let idx = v["link"].as_u64().unwrap_or(0) as usize;
    let bytes: Vec<u8> = v["bytes"].as_array().ok_or("MACHINERY: no bytes")?.iter().map(|x| x.as_u64().unwrap_or(0) as u8).collect();
    let mut env = Env::new();
    let base = build_state(&mut env, st);
    let r1 = judge(&mut env, &base, idx, &bytes);
    let r2 = judge(&mut env, &base, idx, &bytes);
    if r1.as_ref().err().map(|f| f.key.clone()) != r2.as_ref().err().map(|f| f.key.clone()) {
        return Err("MACHINERY: two replays disagree".into());
    }
    r1.map(|_| ()).map_err(|f| format!("[{}] {}", f.key, f.msg))
}
