//! C15 — wire codec is total, bounded and matches the SRTLA/SRT layouts.
//!
//! Exhaustive product enumeration of byte strings through every real decoder,
//! differentially against an independent reference decoder written from the
//! property's layout table (shares no code with `srtla-protocol`), plus
//! builder round-trips through both.

use std::panic::{AssertUnwindSafe, catch_unwind};
use std::sync::Mutex;
use std::sync::atomic::{AtomicU64, Ordering};

use serde_json::{Value, json};
use srtla_protocol as p;

use crate::engine::{Fail, hash_of, par_map};
use crate::evidence::{Report, Tier, Violation};
use crate::util::progress;

// ----------------------------------------------------------------------------
// independent reference codec (from the statement's layout table)

fn be16(b: &[u8], o: usize) -> u16 {
    ((b[o] as u16) << 8) | b[o + 1] as u16
}
fn be32(b: &[u8], o: usize) -> u32 {
    ((b[o] as u32) << 24) | ((b[o + 1] as u32) << 16) | ((b[o + 2] as u32) << 8) | b[o + 3] as u32
}

fn ref_type(b: &[u8]) -> Option<u16> {
    if b.len() >= 2 { Some(be16(b, 0)) } else { None }
}

fn ref_seq(b: &[u8]) -> Option<u32> {
    if b.len() < 4 {
        return None;
    }
    let w = be32(b, 0);
    if w >> 31 == 0 { Some(w) } else { None }
}

/// `None` = the layout table does not decide (a "data packet" shorter than
/// two header words); otherwise the retransmit verdict.
fn ref_retransmit(b: &[u8]) -> Option<bool> {
    if b.len() >= 5 && b.len() < 8 && b[0] >> 7 == 0 {
        return None;
    }
    Some(b.len() >= 8 && b[0] >> 7 == 0 && (b[4] >> 2) & 1 == 1)
}

fn ref_srt_ack(b: &[u8]) -> Option<u32> {
    if b.len() >= 20 && be16(b, 0) == 0x8002 {
        Some(be32(b, 16))
    } else {
        None
    }
}

fn ref_nak(b: &[u8]) -> Vec<u32> {
    let mut out = Vec::new();
    if b.len() < 8 || be16(b, 0) != 0x8003 {
        return out;
    }
    let words: Vec<u32> = (1..b.len() / 4).map(|i| be32(b, i * 4)).collect();
    let mut i = 0;
    while i < words.len() {
        let w = words[i];
        i += 1;
        if w >> 31 == 1 {
            if i >= words.len() {
                break;
            }
            let start = w & 0x7fff_ffff;
            let end = words[i];
            i += 1;
            let mut s = start as u64;
            while s <= end as u64 && out.len() < 1000 {
                out.push(s as u32);
                s += 1;
            }
        } else {
            out.push(w);
        }
    }
    out
}

fn ref_srtla_ack(b: &[u8]) -> Vec<u32> {
    if b.len() < 8 || be16(b, 0) != 0x9100 {
        return Vec::new();
    }
    (1..b.len() / 4).map(|i| be32(b, i * 4)).collect()
}

fn ref_ka_ts(b: &[u8]) -> Option<u64> {
    if b.len() >= 10 && be16(b, 0) == 0x9000 {
        Some(((be32(b, 2) as u64) << 32) | be32(b, 6) as u64)
    } else {
        None
    }
}

fn ref_ka_info(b: &[u8]) -> Option<[u32; 6]> {
    if b.len() >= 38 && be16(b, 0) == 0x9000 && be16(b, 10) == 0xc01f && be16(b, 12) == 1 {
        Some([
            be32(b, 14),
            be32(b, 18),
            be32(b, 22),
            be32(b, 26),
            be32(b, 30),
            be32(b, 34),
        ])
    } else {
        None
    }
}

// ----------------------------------------------------------------------------

fn compare(b: &[u8]) -> Result<(), Fail> {
    let show = || -> String {
        let n = b.len().min(48);
        format!("len={} bytes[..{n}]={:02x?}", b.len(), &b[..n])
    };
    macro_rules! eq {
        ($name:expr, $real:expr, $refv:expr) => {{
            let r = $real;
            let e = $refv;
            if r != e {
                return Err(Fail::new(
                    concat!("decoder-mismatch:", $name),
                    format!("{}: real={:?} reference={:?} on {}", $name, r, e, show()),
                ));
            }
        }};
    }
    eq!("get_packet_type", p::get_packet_type(b), ref_type(b));
    eq!("get_srt_sequence_number", p::get_srt_sequence_number(b), ref_seq(b));
    if let Some(e) = ref_retransmit(b) {
        eq!("is_srt_data_retransmit", p::is_srt_data_retransmit(b), e);
    } else {
        let _ = p::is_srt_data_retransmit(b);
    }
    eq!("parse_srt_ack", p::parse_srt_ack(b), ref_srt_ack(b));
    let nak = p::parse_srt_nak(b);
    let payload = b.len().saturating_sub(4);
    if nak.len() > 1000 + payload / 4 {
        return Err(Fail::new(
            "nak-list-unbounded",
            format!("parse_srt_nak returned {} entries for {}", nak.len(), show()),
        ));
    }
    eq!("parse_srt_nak", nak.to_vec(), ref_nak(b));
    eq!("parse_srtla_ack", p::parse_srtla_ack(b).to_vec(), ref_srtla_ack(b));
    eq!("extract_keepalive_timestamp", p::extract_keepalive_timestamp(b), ref_ka_ts(b));
    let info = p::extract_keepalive_conn_info(b).map(|i| {
        [
            i.conn_id,
            i.window as u32,
            i.in_flight as u32,
            i.rtt_ms,
            i.nak_count,
            i.bitrate_bytes_per_sec,
        ]
    });
    eq!("extract_keepalive_conn_info", info, ref_ka_info(b));
    let t = ref_type(b);
    eq!("is_srtla_reg1", p::is_srtla_reg1(b), b.len() == 258 && t == Some(0x9200));
    eq!("is_srtla_reg2", p::is_srtla_reg2(b), b.len() == 258 && t == Some(0x9201));
    eq!("is_srtla_reg3", p::is_srtla_reg3(b), b.len() == 2 && t == Some(0x9202));
    eq!("is_srtla_keepalive", p::is_srtla_keepalive(b), t == Some(0x9000));
    eq!("is_srt_ack", p::is_srt_ack(b), t == Some(0x8002));
    Ok(())
}

fn check(b: &[u8]) -> Result<(), Fail> {
    match catch_unwind(AssertUnwindSafe(|| compare(b))) {
        Ok(r) => r,
        Err(_) => Err(Fail::new(
            "decoder-panic",
            format!("a decoder panicked on len={} bytes[..]={:02x?}", b.len(), &b[..b.len().min(48)]),
        )),
    }
}

const TYPES: [u16; 16] = [
    0x9000, 0x9100, 0x9200, 0x9201, 0x9202, 0x9210, 0x9211, 0x9212, 0x8000, 0x8002, 0x8003, 0x8005,
    0x0000, 0x7fff, 0x8001, 0xffff,
];
const WORDS: [u32; 8] = [
    0,
    1,
    0x7fff_ffff,
    0x8000_0000,
    0x8000_0001,
    0x8000_03e8,
    0xffff_fffe,
    0xffff_ffff,
];

struct Sink {
    n: AtomicU64,
    distinct: Mutex<std::collections::HashSet<u64>>,
    fails: Mutex<Vec<(String, Fail, Vec<u8>)>>,
    fail_n: AtomicU64,
}

impl Sink {
    fn feed(&self, class: &str, b: &[u8], local: &mut Vec<u64>) {
        self.n.fetch_add(1, Ordering::Relaxed);
        // distinct decoder outcomes: digest of the reference outputs
        local.push(hash_of(&(
            ref_type(b),
            ref_seq(b),
            ref_srt_ack(b),
            ref_nak(b).len(),
            ref_srtla_ack(b).len(),
            ref_ka_ts(b).is_some(),
            ref_ka_info(b).is_some(),
            ref_retransmit(b),
        )));
        if local.len() > 4096 {
            let mut d = self.distinct.lock().unwrap();
            if d.len() < 2_000_000 {
                d.extend(local.drain(..));
            } else {
                local.clear();
            }
        }
        if let Err(f) = check(b) {
            self.fail_n.fetch_add(1, Ordering::Relaxed);
            let mut v = self.fails.lock().unwrap();
            if v.iter().filter(|x| x.1.key == f.key).count() < 3 {
                v.push((class.to_string(), f, b.to_vec()));
            }
        }
    }
    fn flush(&self, local: &mut Vec<u64>) {
        let mut d = self.distinct.lock().unwrap();
        d.extend(local.drain(..));
    }
}

fn tail(kind: usize, len: usize) -> Vec<u8> {
    match kind {
        0 => vec![0u8; len],
        1 => vec![0xffu8; len],
        _ => (0..len).map(|i| i as u8).collect(),
    }
}

fn word_lists(max: usize) -> Vec<Vec<u32>> {
    let mut out: Vec<Vec<u32>> = vec![vec![]];
    let mut level: Vec<Vec<u32>> = vec![vec![]];
    for _ in 0..max {
        let mut next = Vec::new();
        for l in &level {
            for w in WORDS {
                let mut x = l.clone();
                x.push(w);
                next.push(x);
            }
        }
        out.extend(next.iter().cloned());
        level = next;
    }
    out
}

fn builders(sink: &Sink, rep: &mut Report) {
    let mut n_build = 0u64;
    let fail = |key: &str, msg: String, rep: &mut Report| {
        rep.add_violation(Violation {
            key: key.to_string(),
            message: msg.clone(),
            replay: json!({"class": "builders", "detail": msg}),
        });
    };
    // REG1 / REG2 for ids: 00.., ff.., incrementing, one-hot at every position
    let mut ids: Vec<[u8; 256]> = vec![[0u8; 256], [0xffu8; 256]];
    let mut inc = [0u8; 256];
    for (i, b) in inc.iter_mut().enumerate() {
        *b = i as u8;
    }
    ids.push(inc);
    for pos in 0..256 {
        let mut id = [0u8; 256];
        id[pos] = 0x80 | (pos as u8 & 0x7f).max(1);
        ids.push(id);
    }
    for id in &ids {
        for (name, pkt, ty) in [
            ("create_reg1_packet", p::create_reg1_packet(id).to_vec(), 0x9200u16),
            ("create_reg2_packet", p::create_reg2_packet(id).to_vec(), 0x9201u16),
        ] {
            n_build += 1;
            if pkt.len() != 258 || be16(&pkt, 0) != ty || pkt[2..] != id[..] {
                fail("builder-layout", format!("{name}: wrong frame (len {})", pkt.len()), rep);
            }
            let is1 = p::is_srtla_reg1(&pkt);
            let is2 = p::is_srtla_reg2(&pkt);
            if (ty == 0x9200) != is1 || (ty == 0x9201) != is2 {
                fail("builder-roundtrip", format!("{name}: real validators disagree (reg1={is1}, reg2={is2})"), rep);
            }
            let mut l = Vec::new();
            sink.feed("builders", &pkt, &mut l);
            sink.flush(&mut l);
        }
    }
    // keepalives
    let fv: [u32; 6] = [0, 1, 0xffff_ffff, 0x8000_0000, 0x7fff_ffff, 0x8000_0001];
    let nows: [u64; 5] = [0, 1, 1 << 63, u64::MAX, 0x0102_0304_0506_0708];
    let mut l = Vec::new();
    for &now in &nows {
        let k = p::create_keepalive_packet(now).to_vec();
        n_build += 1;
        if k.len() != 10 || ref_ka_ts(&k) != Some(now) || p::extract_keepalive_timestamp(&k) != Some(now) || ref_ka_info(&k).is_some() {
            fail("builder-roundtrip", format!("create_keepalive_packet({now}) does not decode back"), rep);
        }
        sink.feed("builders", &k, &mut l);
        // all 6^6 field combinations
        let mut idx = [0usize; 6];
        loop {
            let f: Vec<u32> = idx.iter().map(|i| fv[*i]).collect();
            let info = p::ConnectionInfo {
                conn_id: f[0],
                window: f[1] as i32,
                in_flight: f[2] as i32,
                rtt_ms: f[3],
                nak_count: f[4],
                bitrate_bytes_per_sec: f[5],
            };
            let k = p::create_keepalive_packet_ext(info, now);
            n_build += 1;
            let want = [f[0], f[1], f[2], f[3], f[4], f[5]];
            if k.len() != 38
                || be16(&k, 0) != 0x9000
                || ref_ka_ts(&k) != Some(now)
                || ref_ka_info(&k) != Some(want)
                || p::extract_keepalive_timestamp(&k) != Some(now)
                || p::extract_keepalive_conn_info(&k) != Some(info)
            {
                fail("builder-roundtrip", format!("create_keepalive_packet_ext({info:?},{now}) does not decode back"), rep);
            }
            sink.feed("builders", &k, &mut l);
            let mut d = 0;
            loop {
                idx[d] += 1;
                if idx[d] < fv.len() {
                    break;
                }
                idx[d] = 0;
                d += 1;
                if d == 6 {
                    break;
                }
            }
            if d == 6 {
                break;
            }
        }
    }
    // SRTLA ACK builder for lists of length 0..=16 over the word alphabet
    for n in 0..=16usize {
        for rot in 0..8 {
            let list: Vec<u32> = (0..n).map(|i| WORDS[(i + rot) % 8]).collect();
            let k = p::create_ack_packet(&list).to_vec();
            n_build += 1;
            let want: Vec<u32> = if n >= 1 { list.clone() } else { vec![] };
            if k.len() != 4 + 4 * n || be16(&k, 0) != 0x9100 || ref_srtla_ack(&k) != want || p::parse_srtla_ack(&k).to_vec() != want {
                fail("builder-roundtrip", format!("create_ack_packet({list:x?}) does not decode back"), rep);
            }
            sink.feed("builders", &k, &mut l);
        }
    }
    sink.flush(&mut l);
    rep.set("builder_frames", json!(n_build));
}

pub fn run(tier: Tier) -> Report {
    let mut rep = Report::new();
    let sink = Sink {
        n: AtomicU64::new(0),
        distinct: Mutex::new(Default::default()),
        fails: Mutex::new(Vec::new()),
        fail_n: AtomicU64::new(0),
    };
    let threads = 16;

    // (1) every byte string of length 0..=2; length 3 under the 16 type codes
    progress("C15", "class 1: all byte strings of length 0..=2 and length 3 under 16 type codes");
    par_map(256, threads, |a| {
        let mut l = Vec::new();
        if a == 0 {
            sink.feed("short", &[], &mut l);
        }
        sink.feed("short", &[a as u8], &mut l);
        for b in 0..=255u8 {
            sink.feed("short", &[a as u8, b], &mut l);
        }
        sink.flush(&mut l);
    });
    par_map(TYPES.len(), threads, |t| {
        let mut l = Vec::new();
        for c in 0..=255u8 {
            let ty = TYPES[t].to_be_bytes();
            sink.feed("short", &[ty[0], ty[1], c], &mut l);
        }
        sink.flush(&mut l);
    });

    // (2) all 65536 type codes x lengths x tails
    let lens: Vec<usize> = if tier.is_quick() {
        (0..=40).chain(256..=260).chain([1316, 1499, 1500]).collect()
    } else {
        (0..=72)
            .chain(250..=264)
            .chain(1310..=1320)
            .chain(1490..=1500)
            .collect()
    };
    progress("C15", "class 2: all 65536 type codes x lengths x tails");
    par_map(256, threads, |hi| {
        let mut l = Vec::new();
        for lo in 0..=255u8 {
            for &len in &lens {
                if len < 2 {
                    continue;
                }
                for tk in 0..3 {
                    let mut b = tail(tk, len);
                    b[0] = hi as u8;
                    b[1] = lo;
                    sink.feed("types-x-lengths", &b, &mut l);
                }
            }
        }
        sink.flush(&mut l);
    });

    // (3) structured exhaustive
    progress("C15", "class 3: structured NAK / SRTLA-ACK / SRT-ACK / keepalive payloads");
    let lists = word_lists(if tier.is_quick() { 5 } else { 6 });
    let nl = lists.len();
    par_map(threads, threads, |chunk| {
        let mut l = Vec::new();
        for (i, list) in lists.iter().enumerate() {
            if i % threads != chunk {
                continue;
            }
            for ty in [0x8003u16, 0x9100, 0x8002] {
                for pad in [0u8, 0xff] {
                    let mut b = vec![];
                    b.extend_from_slice(&ty.to_be_bytes());
                    b.extend_from_slice(&[pad, pad]);
                    for w in list {
                        b.extend_from_slice(&w.to_be_bytes());
                    }
                    for trail in 0..4 {
                        let mut x = b.clone();
                        x.extend(std::iter::repeat_n(0x80u8, trail));
                        sink.feed("structured-lists", &x, &mut l);
                    }
                }
            }
        }
        sink.flush(&mut l);
    });
    {
        let mut l = Vec::new();
        // SRT ACK: lengths 19/20/21 x all 2^5 presence patterns around bytes 15..20
        for len in [19usize, 20, 21, 24, 44] {
            for pat in 0..32u32 {
                let mut b = vec![0u8; len];
                b[0] = 0x80;
                b[1] = 0x02;
                for k in 0..5 {
                    if 15 + k < len && (pat >> k) & 1 == 1 {
                        b[15 + k] = 0xa0 + k as u8;
                    }
                }
                sink.feed("srt-ack", &b, &mut l);
            }
        }
        // keepalive echoes
        for len in [9usize, 10, 11, 37, 38, 39, 64] {
            for magic in [0xc01fu16, 0xc01e, 0x1fc0] {
                for ver in [1u16, 0, 2, 0x0100] {
                    for ts in [0u64, 1, u64::MAX, 0x0102_0304_0506_0708] {
                        let mut b = vec![0x5au8; len];
                        b[0] = 0x90;
                        b[1] = 0x00;
                        for (i, x) in ts.to_be_bytes().iter().enumerate() {
                            if 2 + i < len {
                                b[2 + i] = *x;
                            }
                        }
                        if len >= 14 {
                            b[10..12].copy_from_slice(&magic.to_be_bytes());
                            b[12..14].copy_from_slice(&ver.to_be_bytes());
                        }
                        sink.feed("keepalive", &b, &mut l);
                    }
                }
            }
        }
        // data packets: retransmit flag x control bit x lengths
        for len in [3usize, 4, 5, 7, 8, 16, 1316] {
            for b0 in [0x00u8, 0x7f, 0x80, 0xff] {
                for b4 in 0..=255u8 {
                    let mut b = vec![0x11u8; len];
                    b[0] = b0;
                    if len > 4 {
                        b[4] = b4;
                    }
                    sink.feed("data-header", &b, &mut l);
                }
            }
        }
        // (4) MTU-sized NAKs made of wide ranges (expansion bound)
        progress("C15", "class 4: MTU-sized NAKs of wide ranges");
        for len in [1496usize, 1497, 1499, 1500, 12, 16] {
            for width in [1000u32, 1001, 999, 100_000, 0x7fff_fff0] {
                for start in [0u32, 1, 0x7fff_0000] {
                    let mut b = vec![0u8; len];
                    b[0] = 0x80;
                    b[1] = 0x03;
                    let mut o = 4;
                    let mut s = start;
                    while o + 8 <= len {
                        b[o..o + 4].copy_from_slice(&(s | 0x8000_0000).to_be_bytes());
                        b[o + 4..o + 8].copy_from_slice(&s.wrapping_add(width).to_be_bytes());
                        s = s.wrapping_add(7);
                        o += 8;
                    }
                    sink.feed("nak-wide-ranges", &b, &mut l);
                }
            }
            // range whose end is below its start, end with top bit, dangling range start
            for (a, e) in [(5u32, 4u32), (5, 0xffff_ffff), (0x7fff_ffff, 0x8000_0005), (0, 0)] {
                let mut b = vec![0x80u8, 0x03, 0, 0];
                b.extend_from_slice(&(a | 0x8000_0000).to_be_bytes());
                b.extend_from_slice(&e.to_be_bytes());
                b.extend_from_slice(&(9u32 | 0x8000_0000).to_be_bytes());
                sink.feed("nak-odd-ranges", &b, &mut l);
            }
        }
        sink.flush(&mut l);
    }

    // (5) builders
    progress("C15", "class 5: builders");
    builders(&sink, &mut rep);

    let n = sink.n.load(Ordering::Relaxed);
    let distinct = sink.distinct.lock().unwrap().len() as u64;
    rep.states = distinct;
    rep.transitions = n * 14; // decoder calls (14 decoders per input)
    rep.traces = n;
    rep.set("inputs", json!(n));
    rep.set("word_lists", json!(nl));
    rep.set("type_x_length_lengths", json!(lens));
    rep.set("distinct_reference_outcomes", json!(distinct));
    rep.set(
        "classes",
        json!([
            "all byte strings of length 0..=2 (65793) and length 3 under 16 type codes (4096)",
            "all 65536 type codes x listed lengths x tails {00.., ff.., incrementing}",
            "all word lists of length <= N over {0,1,7fffffff,80000000,80000001,800003e8,fffffffe,ffffffff} as NAK / SRTLA-ACK / SRT-ACK payloads x 2 paddings x 0..3 trailing bytes",
            "SRT ACK presence patterns; keepalive echo lengths x magic x version x timestamp; data-header flag bytes",
            "MTU-sized NAKs of ranges wider than the expansion bound, inverted / top-bit / dangling ranges",
            "builders: REG1/REG2 over 259 ids, keepalive over 6^6 field values x 5 timestamps, SRTLA ACK lists of length 0..=16",
        ]),
    );
    rep.samples.push(json!({"class": "structured-lists", "bytes_hex": "8003 0000 80000001 000003e8 (NAK range 1..=1000)"}));
    rep.samples.push(json!({"class": "types-x-lengths", "bytes": "type 0x9100, length 20, incrementing tail"}));
    rep.set(
        "oracle",
        json!("no decoder panics; every decoder output equals the independent reference decoder's; |NAK list| <= 1000 + payload/4; every built frame has the statement's exact length/offsets and decodes (reference and real) to its arguments"),
    );
    rep.assume("byte strings are exhaustive for lengths 0..=2 (and 3 under 16 type codes) and for all 65536 type codes at the listed lengths, and structured-exhaustive beyond (field values and tails from the stated alphabets); this family does not generate random long inputs");
    rep.assume("is_srt_data_retransmit on a 5..7-byte datagram (shorter than two SRT header words) is not decided by the layout table; only totality is checked there");
    for (class, f, bytes) in sink.fails.lock().unwrap().drain(..) {
        rep.violations.push(Violation {
            key: f.key.clone(),
            message: f.msg.clone(),
            replay: json!({"class": class, "bytes": bytes}),
        });
    }
    let fail_n = sink.fail_n.load(Ordering::Relaxed);
    if fail_n > 0 {
        let keys: std::collections::BTreeSet<String> =
            rep.violations.iter().map(|v| v.key.clone()).collect();
        for k in keys {
            rep.count_violation(&k, fail_n);
        }
    }
    rep
}

pub fn replay(v: &Value) -> Result<(), String> {
    let Some(arr) = v["bytes"].as_array() else {
        return Err("MACHINERY: artefact has no byte string (builder failures are described in the message)".into());
    };
    let b: Vec<u8> = arr.iter().map(|x| x.as_u64().unwrap_or(0) as u8).collect();
    match check(&b) {
        Ok(()) => Ok(()),
        Err(f) => Err(format!("[{}] {}", f.key, f.msg)),
    }
}
