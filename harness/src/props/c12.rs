//! C12 — the stall guard is a routing penalty only; off means baseline.
//!
//! History exploration of the real selector with a relational oracle:
//! (1) a routing decision leaves every link's liveness / accounting
//! projection bit-identical; (2) with the guard off every stall flag is clear
//! and the decision equals the decision on a *history-free twin* — the same
//! links driven through the same events but never shown to the selector.

use std::sync::Arc;
use std::time::Duration;

use serde_json::{Value, json};
use srtla_core::config_snapshot::ConfigSnapshot;
use srtla_core::connection::SrtlaConnection;
use srtla_core::mode::SchedulingMode;
use srtla_core::selection::select_connection_idx;

use crate::engine::{self, Fail, Limits, Model, Plan};
use crate::evidence::{Report, Tier};
use crate::util::{T0, live_conn, set_now};

#[derive(Clone, Copy, Debug, PartialEq)]
enum Ev {
    Sel,
    Adv(u64),
    Load(usize),
    Proof(usize),
    Hear(usize),
    Drain(usize),
    Nak(usize),
    Disc(usize),
    Guard,
    Thresholds,
}

/// scripted start states that were not reached (bit i = start state i); a machinery error unless a violation explains it
static START_MISSED: std::sync::atomic::AtomicU64 = std::sync::atomic::AtomicU64::new(0);

/// decisions at which a latch was released with the guard on (vacuity guard for the rejoin path)
static RELEASES: std::sync::atomic::AtomicU64 = std::sync::atomic::AtomicU64::new(0);

const TH: [(i32, u64); 3] = [(32, 3000), (1, 500), (0, 0)];

#[derive(Clone)]
pub struct St {
    now: u64,
    links: Vec<SrtlaConnection>,
    twin: Vec<SrtlaConnection>,
    next_seq: i32,
    guard: bool,
    th: usize,
    last: Option<usize>,
    sel_calls: u32,
}

pub struct M {
    n: usize,
    mode: SchedulingMode,
    events: Vec<Ev>,
}

impl M {
    fn new(n: usize, mode: SchedulingMode, reduced: bool) -> Self {
        let mut events = vec![Ev::Sel, Ev::Adv(1000), Ev::Guard];
        for l in 0..n {
            events.push(Ev::Load(l));
        }
        for l in 0..n {
            events.push(Ev::Proof(l));
        }
        events.push(Ev::Adv(3000));
        for l in 0..n {
            events.push(Ev::Hear(l));
            events.push(Ev::Drain(l));
        }
        if !reduced {
            events.push(Ev::Adv(250));
            events.push(Ev::Thresholds);
            for l in 0..n {
                events.push(Ev::Nak(l));
                events.push(Ev::Disc(l));
            }
        }
        Self { n, mode, events }
    }
    fn label(&self) -> String {
        format!("links={} mode={:?} alphabet={}", self.n, self.mode, self.events.len())
    }
    fn cfg(&self, s: &St) -> ConfigSnapshot {
        ConfigSnapshot {
            mode: self.mode,
            quality_enabled: true,
            stall_deselect: s.guard,
            stall_min_in_flight: TH[s.th].0,
            stall_ack_stale_ms: TH[s.th].1,
            conn_timeout_ms: 5000,
        }
    }
}

/// Liveness / accounting projection of a link (everything except the
/// guard-private stall state, the per-link timeout copy and the quality cache).
pub fn projection(c: &SrtlaConnection) -> String {
    let mut log: Vec<(i32, u64)> = c.packet_log.iter().map(|(k, v)| (*k, *v)).collect();
    log.sort_unstable();
    format!(
        "{}|{}|{}|{:?}|{:?}|{:?}|{:?}|{}|{:?}|{:?}|{:?}|{:?}|{:?}|{:?}|{}|{}|{}|{}|{}",
        c.connected,
        c.window,
        c.in_flight_packets,
        c.last_received,
        c.last_sent,
        c.last_keepalive_sent,
        log,
        c.highest_acked_seq,
        c.congestion,
        c.phase,
        c.reconnection,
        c.rtt,
        c.bitrate,
        c.batch_sender,
        c.last_ack_or_rtt_sample_ms,
        c.weak,
        c.loss_degraded,
        c.cc_target_bps,
        c.cc_backing_off,
    )
}

fn apply(c: &mut SrtlaConnection, ev: Ev, now: u64, seq0: i32, classic: bool) {
    match ev {
        Ev::Load(_) => {
            for k in 0..32 {
                c.register_packet(seq0 + k, now);
            }
        }
        Ev::Proof(_) => {
            c.register_packet(seq0, now);
            c.handle_srtla_ack_specific(seq0, classic, now);
            c.last_received = Some(now);
        }
        Ev::Hear(_) => c.last_received = Some(now),
        Ev::Drain(_) => c.handle_srt_ack(seq0 + 40, now),
        Ev::Nak(_) => {
            c.register_packet(seq0, now);
            c.handle_nak(seq0, now);
        }
        Ev::Disc(_) => {
            c.connected = false;
            c.last_received = None;
        }
        _ => {}
    }
}

impl M {
    fn step_ev(&self, _w: &mut (), s: &mut St, ev: Ev) -> Result<(), Fail> {
        let classic = self.mode.is_classic();
        match ev {
            Ev::Sel => {
                let cfg = self.cfg(s);
                let before: Vec<String> = s.links.iter().map(projection).collect();
                let was_latched: Vec<bool> = s.links.iter().map(|c| c.stall_latched()).collect();
                let r = select_connection_idx(&mut s.links, s.last, s.now, &cfg);
                if s.guard && s.links.iter().zip(&was_latched).any(|(c, w)| *w && !c.stall_latched()) {
                    RELEASES.fetch_add(1, std::sync::atomic::Ordering::Relaxed);
                }
                s.sel_calls += 1;
                for (l, c) in s.links.iter().enumerate() {
                    let after = projection(c);
                    if after != before[l] {
                        return Err(Fail::new(
                            "selection-changed-link-state",
                            format!("select changed link {l}'s liveness/accounting state:\n before {}\n after  {}", before[l], after),
                        ));
                    }
                    // the twin went through the same events without ever being selected on
                    let tw = projection(&s.twin[l]);
                    if after != tw {
                        return Err(Fail::new(
                            "selection-history-leaked-into-link-state",
                            format!("link {l} differs from its never-selected twin:\n link {}\n twin {}", after, tw),
                        ));
                    }
                }
                if !s.guard {
                    for (l, c) in s.links.iter().enumerate() {
                        let p = c.verif_private();
                        if c.is_stall_gated() || c.stall_latched() || p.silence_pulled || p.stall_recovery_since_ms != 0 {
                            return Err(Fail::new(
                                "guard-off-left-stall-state",
                                format!("guard off, link {l}: gated={} latched={} pulled={} recovery_since={}", c.is_stall_gated(), c.stall_latched(), p.silence_pulled, p.stall_recovery_since_ms),
                            ));
                        }
                    }
                    let mut tw = s.twin.clone();
                    let rt = select_connection_idx(&mut tw, s.last, s.now, &cfg);
                    if rt != r {
                        return Err(Fail::new(
                            "guard-off-decision-differs-from-baseline",
                            format!("guard off: decision {r:?}, history-free twin decides {rt:?} (previous link {:?})", s.last),
                        ));
                    }
                }
                if r.is_some() {
                    s.last = r;
                }
            }
            Ev::Adv(dt) => s.now += dt,
            Ev::Guard => {
                s.guard = !s.guard;
                s.now += 50;
            }
            Ev::Thresholds => {
                s.th = (s.th + 1) % TH.len();
                s.now += 50;
            }
            Ev::Load(l) | Ev::Proof(l) | Ev::Hear(l) | Ev::Drain(l) | Ev::Nak(l) | Ev::Disc(l) => {
                s.now += 50;
                let seq0 = s.next_seq;
                s.next_seq += 64;
                apply(&mut s.links[l], ev, s.now, seq0, classic);
                apply(&mut s.twin[l], ev, s.now, seq0, classic);
            }
        }
        set_now(s.now);
        Ok(())
    }
}

impl Model for M {
    type S = St;
    type W = ();
    fn worker(&self) {}
    fn n_inits(&self) -> usize {
        5
    }
    fn init_name(&self, i: usize) -> String {
        [
            "live links, guard on",
            "link 0 latched (scripted: Load, Proof, Adv 3000, Adv 1000, Sel)",
            "link 0 silence-pulled (scripted: Load, Adv 1000, Sel)",
            "link 0 latched with its window lowered by NAKs (scripted: Load, Proof, 5 x Nak, Adv 3000, Adv 1000, Sel)",
            "link 0 latched four separate times (guard toggled off and on in between; the lifetime counters survive), guard on",
        ][i]
        .into()
    }
    fn init(&self, w: &mut (), i: usize) -> St {
        set_now(T0);
        let links: Vec<SrtlaConnection> = (0..self.n)
            .map(|l| {
                let mut c = live_conn(l, T0);
                // housekeeping's stamps are set, so that a decision that touches them shows
                c.last_keepalive_sent = Some(T0 - 300);
                c.last_sent = Some(T0 - 100);
                c
            })
            .collect();
        let mut s = St {
            now: T0,
            twin: links.clone(),
            links,
            next_seq: 1000,
            guard: true,
            th: 0,
            last: None,
            sel_calls: 0,
        };
        let script: Vec<Ev> = match i {
            4 => vec![
                Ev::Load(0), Ev::Proof(0), Ev::Adv(3000), Ev::Adv(1000), Ev::Sel,
                Ev::Guard, Ev::Sel, Ev::Guard, Ev::Sel,
                Ev::Guard, Ev::Sel, Ev::Guard, Ev::Sel,
                Ev::Guard, Ev::Sel, Ev::Guard, Ev::Sel,
            ],
            3 => vec![Ev::Load(0), Ev::Proof(0), Ev::Nak(0), Ev::Nak(0), Ev::Nak(0), Ev::Nak(0), Ev::Nak(0), Ev::Adv(3000), Ev::Adv(1000), Ev::Sel],
            1 => vec![Ev::Load(0), Ev::Proof(0), Ev::Adv(3000), Ev::Adv(1000), Ev::Sel],
            2 => vec![Ev::Load(0), Ev::Adv(1000), Ev::Sel],
            _ => vec![],
        };
        for ev in script {
            if let Err(f) = self.step_ev(w, &mut s, ev) { engine::prefix_fail(f); }
        }
        let reached = match i {
            4 => s.links[0].verif_private().stall_gate_events >= 4 && s.links[0].stall_latched(),
            1 | 3 => s.links[0].stall_latched(),
            2 => s.links[0].verif_private().silence_pulled,
            _ => true,
        };
        if !reached {
            // not a verdict of this property by itself: the exploration goes on from the state the script did reach
            START_MISSED.fetch_or(1 << i, std::sync::atomic::Ordering::Relaxed);
        }
        s
    }
    fn n_events(&self) -> usize {
        self.events.len()
    }
    fn event_name(&self, e: usize) -> String {
        format!("{:?}", self.events[e])
    }
    fn step(&self, w: &mut (), s: &mut St, e: usize) -> Result<(), Fail> {
        self.step_ev(w, s, self.events[e])
    }
    fn fingerprint(&self, s: &St) -> u64 {
        let v: Vec<(bool, bool, bool, i32, u64)> = s
            .links
            .iter()
            .map(|c| {
                let p = c.verif_private();
                (c.is_stall_gated(), c.stall_latched(), p.silence_pulled, c.in_flight_packets, s.now - c.last_ack_or_rtt_sample_ms.min(s.now))
            })
            .collect();
        engine::hash_of(&(v, s.guard, s.th, s.last))
    }
}

fn rejoin_plan(m: &M, k: usize, depth: usize) -> Plan {
    let find = |ev: Ev| m.events.iter().position(|e| *e == ev).unwrap();
    let cyc = [find(Ev::Proof(0)), find(Ev::Sel), find(Ev::Adv(1000))];
    Plan::Dev { k, depth, default: Arc::new(move |d| cyc[d % 3]) }
}

fn models(tier: Tier) -> Vec<(String, Arc<M>, Vec<Plan>)> {
    let mut out = Vec::new();
    for mode in [SchedulingMode::Enhanced, SchedulingMode::Classic] {
        if tier.is_quick() {
            let m = Arc::new(M::new(2, mode, true));
            out.push((m.label(), m, vec![Plan::Full { depth: 6 }]));
            let m = Arc::new(M::new(2, mode, false));
            out.push((m.label(), m, vec![Plan::Full { depth: 5 }]));
            let m = Arc::new(M::new(1, mode, false));
            out.push((m.label(), m, vec![Plan::Full { depth: 5 }]));
            // through the whole rejoin dwell: default cycle Proof(0), Sel, Adv(1000), two deviations anywhere
            let m = Arc::new(M::new(2, mode, false));
            out.push((m.label(), m.clone(), vec![rejoin_plan(&m, 2, 27)]));
        } else {
            let m = Arc::new(M::new(2, mode, true));
            out.push((m.label(), m, vec![Plan::Full { depth: 7 }]));
            let m = Arc::new(M::new(2, mode, false));
            out.push((m.label(), m, vec![Plan::Full { depth: 6 }]));
            let m = Arc::new(M::new(1, mode, false));
            out.push((m.label(), m, vec![Plan::Full { depth: 7 }]));
            let m = Arc::new(M::new(3, mode, true));
            out.push((m.label(), m, vec![Plan::Full { depth: 6 }]));
            let m = Arc::new(M::new(2, mode, false));
            out.push((m.label(), m.clone(), vec![rejoin_plan(&m, 3, 27)]));
            let m = Arc::new(M::new(3, mode, false));
            out.push((m.label(), m.clone(), vec![rejoin_plan(&m, 2, 30)]));
            let m = Arc::new(M::new(4, mode, true));
            let sel = 0usize;
            out.push((
                m.label(),
                m,
                vec![Plan::Dev { k: 3, depth: 12, default: Arc::new(move |_| sel) }, Plan::Full { depth: 4 }],
            ));
        }
    }
    out
}

pub fn run(tier: Tier) -> Report {
    let mut rep = Report::new();
    let lim = Limits {
        wall: Duration::from_secs(if tier.is_quick() { 40 } else { 1500 }),
        ..Default::default()
    };
    for (label, m, plans) in models(tier) {
        for plan in plans {
            let ex = engine::explore(&*m, &plan, &lim);
            engine::fold(&mut rep, &*m, &format!("{label} {}", plan.describe()), &plan, ex);
        }
        rep.set(
            &format!("alphabet[{label}]"),
            json!((0..m.n_events()).map(|e| m.event_name(e)).collect::<Vec<_>>()),
        );
    }
    let missed = START_MISSED.load(std::sync::atomic::Ordering::Relaxed);
    if missed != 0 {
        rep.machinery_errors.push(format!("scripted start state(s) not reached (bit mask {missed:#b}): the histories from them were explored from whatever state the script did reach"));
    }
    let rel = RELEASES.load(std::sync::atomic::Ordering::Relaxed);
    rep.set("latch_releases_observed", json!(rel));
    if rel == 0 {
        rep.machinery_errors.push("vacuous: no explored history carried a latched link through the rejoin dwell to its release".into());
    }
    rep.set("thresholds_cycled", json!(TH.iter().map(|t| format!("{t:?}")).collect::<Vec<_>>()));
    rep.set("oracle", json!("on every select: (1) each link's projection (connected, receive/send/keepalive stamps, window, in-flight, packet log, high-water mark, congestion + NAK counters, phase, reconnect state, RTT tracker, bitrate tracker, batch queue, proof stamp, quality gates) is identical before and after, and identical to a twin that went through the same events but was never selected on; (2) with the guard off every link has gated/latched/pulled/recovery cleared and the decision equals the decision of the same call on the history-free twin"));
    rep.assume("every state-changing event advances the clock by >= 50 ms (the quality-cache interval), so cache staleness cannot differ between a link and its twin");
    rep.assume("load / proof / hear / drain / NAK events act on the real connection code (register_packet, handle_srtla_ack_specific, handle_srt_ack, handle_nak) or on the public liveness fields the shell stamps");
    rep
}

pub fn replay(v: &Value) -> Result<(), String> {
    let mut ms = Vec::new();
    for tier in [Tier::Quick, Tier::Thorough] {
        for (l, m, _) in models(tier) {
            ms.push((l, m));
        }
    }
    engine::replay_json(&ms, v)
}
