//! C08 — failed uplinks are detected, retried forever, and rejoin cleanly.
//!
//! World + fault-schedule exploration over virtual time: a run of D one-second
//! macro steps (housekeeping, a fake receiver answering what it saw, client
//! traffic, ACKs) with at most k fault / repair events placed anywhere, judged
//! by a temporal monitor; plus the full product of the pure back-off
//! arithmetic.

use std::sync::Arc;
use std::time::Duration;

use serde_json::{Value, json};
use srtla_core::connection::{LinkPhase, ReconnectionState};
use srtla_core::mode::SchedulingMode;
use srtla_send::config::DynamicConfig;

use crate::engine::{self, Fail, Limits, Model, Plan};
use crate::evidence::{Report, Tier};
use crate::sel::oracle_timed_out;
use crate::util::{T0, srt_data};
use crate::world::*;

use std::sync::atomic::{AtomicU64, Ordering as AO};
/// coverage counters (vacuity guard): situations the explored runs actually went through
static TEARDOWNS: AtomicU64 = AtomicU64::new(0);
static REJOINS: AtomicU64 = AtomicU64::new(0);
static FLAPS: AtomicU64 = AtomicU64::new(0);
static SEND_FAIL_RESETS: AtomicU64 = AtomicU64::new(0);

#[derive(Clone, Copy, Debug, PartialEq, Eq, Hash)]
enum Mode {
    Ok,
    /// nothing is answered, nothing acknowledged
    BlackHole,
    /// handshake replies are lost; keepalive echoes and ACKs get through
    HandshakeLost,
    /// the receiver answers this link's REG2 with REG_ERR
    RegErr,
    /// the receiver-side socket is closed: sends fail with ECONNREFUSED
    SendFails,
    /// a flapping path: it delivers until the link is connected again, then goes dark at once
    /// (before any keepalive echo or ACK reaches the re-registered link)
    Flap,
}

#[derive(Clone, Copy, Debug, PartialEq)]
enum Ev {
    Sec,
    SecIdle,
    /// one second with a burst of 40 client datagrams (several threshold flushes per link)
    SecBurst,
    /// a burst second during which sends on link l fail for a moment (the receiver's port is closed while the first
    /// 30 of 40 datagrams are routed, then open again): the link is soft-reset in the data path, keeps its socket,
    /// and the receiver - which still knows that address - goes on sending it the cumulative ACKs
    SecGlitch(usize),
    Fault(usize, Mode),
    Repair(usize),
    BindFails(usize),
    BindOk(usize),
    /// the receiver loses the group (restart): REG2 is answered with REG_NGP, unknown links get no echo
    Forget,
}

#[derive(Clone, Debug)]
struct LinkMon {
    last_attempt: u64,
    /// the link has been in mode Ok (and the receiver reachable) continuously since
    ok_since: Option<u64>,
    had_bind_fault: bool,
    detected_down: bool,
}

#[derive(Clone)]
pub struct St {
    w: World,
    rec: FakeReceiver,
    mode: Vec<Mode>,
    mon: Vec<LinkMon>,
    next_seq: u32,
    /// receiver-side registered links (it only echoes / acks links it knows)
    rec_known: Vec<bool>,
    /// the harness's own liveness clock: when it last handed link l a datagram
    last_delivered: Vec<u64>,
    /// ... and when it last handed it a datagram that must refresh the receive stamp
    /// (anything but REG1/REG2/REG_ERR/REG_NGP; REG3 counts)
    last_live_delivery: Vec<u64>,
}

fn stamps_liveness(b: &[u8]) -> bool {
    !matches!(pkt_type(b), Some(0x9200) | Some(0x9201) | Some(0x9210) | Some(0x9211)) && b.len() >= 2
}

pub struct M {
    n: usize,
    timeout: u64,
    classic: bool,
    events: Vec<Ev>,
    name: String,
    level: u8,
}

impl M {
    fn new(n: usize, timeout: u64, classic: bool, level: u8) -> Self {
        let mut events = vec![Ev::Sec, Ev::SecIdle];
        for i in 0..n.min(2) {
            events.push(Ev::Fault(i, Mode::BlackHole));
            events.push(Ev::Repair(i));
            events.push(Ev::Fault(i, Mode::SendFails));
            if level >= 1 {
                events.push(Ev::Fault(i, Mode::HandshakeLost));
                events.push(Ev::Fault(i, Mode::RegErr));
                events.push(Ev::Fault(i, Mode::Flap));
            }
        }
        if level >= 1 {
            events.push(Ev::Forget);
        }
        if level >= 2 {
            for i in 0..n.min(2) {
                events.push(Ev::BindFails(i));
                events.push(Ev::BindOk(i));
            }
        }
        if level == 3 {
            // reduced alphabet for the long back-off horizon
            events = vec![Ev::SecIdle, Ev::Sec, Ev::Fault(1, Mode::BlackHole), Ev::BindFails(1), Ev::BindOk(1), Ev::Repair(1)];
        }
        if level == 4 {
            // reduced alphabet for long outages followed by a repair (or a flap)
            events = vec![Ev::SecIdle, Ev::Sec, Ev::Fault(1, Mode::BlackHole), Ev::Repair(1), Ev::Fault(1, Mode::Flap)];
        }
        if level == 6 {
            // a momentary send failure under a receiver that sends its ACKs to every link it knows
            events = vec![Ev::SecBurst, Ev::SecIdle, Ev::SecGlitch(0), Ev::Sec];
        }
        if level == 5 {
            // a send failure soon after a rejoin (default symbol Sec: streaming)
            events = vec![Ev::SecBurst, Ev::SecIdle, Ev::Fault(1, Mode::BlackHole), Ev::Repair(1), Ev::Fault(1, Mode::SendFails)];
        }
        let name = format!(
            "links={n} timeout={timeout} mode={} alphabet={}{}",
            if classic { "classic" } else { "enhanced" },
            events.len(),
            match level {
                3 => " (back-off horizon)",
                4 => " (long outage horizon)",
                5 => " (send failure after rejoin)",
                6 => " (send glitch, ACKs on every known link)",
                _ => "",
            }
        );
        Self { n, timeout, classic, events, name, level }
    }
}

fn client_type(b: &[u8]) -> bool {
    !matches!(pkt_type(b), Some(0x9200) | Some(0x9201) | Some(0x9000))
}

impl M {
    /// one second of the closed loop
    fn second(&self, env: &mut Env, s: &mut St, datagrams: usize) -> Result<(), Fail> {
        self.second_g(env, s, datagrams, None)
    }
    fn second_g(&self, env: &mut Env, s: &mut St, datagrams: usize, glitch: Option<usize>) -> Result<(), Fail> {
        let traffic = datagrams > 0;
        let n = self.n;
        s.w.advance(1000);
        let now = s.w.now;
        let timeout = s.w.config.snapshot().conn_timeout_ms;
        // ---- housekeeping pass
        let pre: Vec<(bool, bool, u64, bool)> = s
            .w
            .connections
            .iter()
            .map(|c| {
                (
                    c.connected,
                    matches!(c.phase, LinkPhase::Registering),
                    c.reconnection.last_reconnect_attempt_ms,
                    oracle_timed_out(c, now, timeout),
                )
            })
            .collect();
        let pre_established: Vec<bool> = s.w.connections.iter().map(|c| c.reconnection.connection_established_ms != 0).collect();
        let pre_may_retry: Vec<bool> = s.w.connections.iter().map(|c| c.reconnection.should_attempt_reconnect(now)).collect();
        let out = s.w.arm_housekeeping(env);
        if std::env::var("VERIF_TRACE").is_ok() {
            for (l, c) in s.w.connections.iter().enumerate() {
                eprintln!(
                    "TRACE +{} link {l}: mode {:?} connected {} phase {:?} rx-age {:?} attempt {} failures {} established {} sock {} wire {:?} hk_err {:?}",
                    now - T0,
                    s.mode[l],
                    c.connected,
                    c.phase,
                    c.last_received.map(|t| now - t),
                    c.reconnection.last_reconnect_attempt_ms.saturating_sub(T0),
                    c.reconnection.reconnect_failure_count,
                    c.reconnection.connection_established_ms.saturating_sub(T0),
                    s.w.conn_io.contains_key(&c.conn_id),
                    out.wire.iter().filter(|x| x.0 == l).map(|x| format!("{:02x}{:02x}/{}", x.1[0], x.1.get(1).copied().unwrap_or(0), x.1.len())).collect::<Vec<_>>(),
                    out.hk_error,
                );
            }
        }
        let mut reg_err_sent = vec![false; n];
        for l in 0..n {
            let c = &s.w.connections[l];
            let ctx = |what: &str| {
                format!(
                    "{what}: link {l} at +{} ms (fault mode {:?}, configured timeout {timeout}, receive age {:?}, per-link timeout copy {})",
                    now - T0,
                    s.mode[l],
                    c.last_received.map(|t| now - t),
                    c.verif_private().conn_timeout_ms
                )
            };
            // clause 1: teardown only for cause
            let torn = (pre[l].0 && !c.connected) || (!pre[l].1 && matches!(c.phase, LinkPhase::Registering));
            if torn {
                TEARDOWNS.fetch_add(1, AO::Relaxed);
                let cause = pre[l].3 || s.mode[l] == Mode::SendFails;
                if !cause {
                    return Err(Fail::new(
                        "torn-down-before-the-configured-timeout",
                        ctx("housekeeping tore the link down although it has not been silent for the configured timeout and no send failed"),
                    ));
                }
                // the same clause on the harness's own clock (not the link's receive stamp): a link that was
                // connected and was handed a stamp-refreshing datagram less than the timeout ago is not torn down
                if pre[l].0 && s.mode[l] != Mode::SendFails && now.saturating_sub(s.last_live_delivery[l]) < timeout {
                    return Err(Fail::new(
                        "torn-down-before-the-configured-timeout",
                        ctx(&format!("the harness handed the link a datagram {} ms ago (own clock), yet housekeeping tore it down", now - s.last_live_delivery[l])),
                    ));
                }
                s.mon[l].detected_down = true;
            }
            // clause 1b: detection. The harness's own clock says nothing was handed to this connected link
            // for the configured timeout, and the link's back-off predicate allowed a retry: this pass
            // must have torn it down.
            if pre[l].0 && c.connected && pre_may_retry[l] && now.saturating_sub(s.last_delivered[l]) >= timeout {
                return Err(Fail::new(
                    "silent-link-not-torn-down",
                    ctx(&format!(
                        "nothing was delivered to the link for {} ms (harness clock) and a retry was allowed, yet housekeeping left it connected",
                        now - s.last_delivered[l]
                    )),
                ));
            }
            // clause 2: retry spacing
            let att = c.reconnection.last_reconnect_attempt_ms;
            if att != pre[l].2 && att == now {
                let prev = s.mon[l].last_attempt;
                if prev != 0 {
                    let min = if pre_established[l] { 5000 } else { 1000 };
                    if now - prev < min {
                        return Err(Fail::new("reconnect-attempts-too-close", ctx(&format!("attempts {} ms apart (minimum {min})", now - prev))));
                    }
                }
                s.mon[l].last_attempt = now;
                // a reconnect attempt re-creates the link's socket: the receiver does not know the new address until
                // a REG2 from it arrives (set again where the receiver answers REG3), so it has nowhere to send
                // return traffic for this link
                s.rec_known[l] = false;
            }
            let down = !c.connected && oracle_timed_out(c, now, timeout);
            if down && s.mon[l].last_attempt != 0 && now - s.mon[l].last_attempt > 120_000 + 1000 {
                return Err(Fail::new("retries-stopped", ctx(&format!("no reconnect attempt for {} ms while the link is down", now - s.mon[l].last_attempt))));
            }
            if !down && !c.connected {
                // in its grace / back-off window
            }
        }
        // ---- the receiver answers what it saw
        let mut replies: Vec<(usize, Vec<u8>)> = Vec::new();
        for (l, b) in &out.wire {
            let l = *l;
            if l >= n {
                continue;
            }
            let t = pkt_type(b);
            match s.mode[l] {
                Mode::BlackHole | Mode::SendFails => continue,
                Mode::HandshakeLost if matches!(t, Some(0x9200) | Some(0x9201)) => continue,
                _ => {}
            }
            match t {
                Some(0x9200) if b.len() == 258 => {
                    let r = s.rec.replies(&[(l, b.clone())]);
                    s.rec_known = vec![false; n];
                    replies.extend(r);
                }
                Some(0x9201) if b.len() == 258 => {
                    if s.mode[l] == Mode::RegErr {
                        replies.push((l, vec![0x92, 0x10]));
                        reg_err_sent[l] = true;
                        s.rec_known[l] = false;
                    } else {
                        let r = s.rec.replies(&[(l, b.clone())]);
                        if r.iter().any(|x| x.1 == [0x92, 0x02]) {
                            s.rec_known[l] = true;
                        }
                        replies.extend(r);
                    }
                }
                Some(0x9000) => {
                    if s.rec_known[l] {
                        replies.push((l, b.clone()));
                    }
                }
                _ => {}
            }
        }
        s.w.advance(20);
        let pre_conn: Vec<bool> = s.w.connections.iter().map(|c| c.connected).collect();
        let mut follow: Vec<(usize, Vec<u8>)> = Vec::new();
        for (l, b) in &replies {
            s.last_delivered[*l] = s.w.now;
            if stamps_liveness(b) {
                s.last_live_delivery[*l] = s.w.now;
            }
            let o = s.w.arm_uplink(env, *l, b);
            // an immediate REG1 (answer to REG_NGP) is answered in the same exchange
            for (l2, b2) in &o.wire {
                if *l2 < n && pkt_type(b2) == Some(0x9200) && !matches!(s.mode[*l2], Mode::BlackHole | Mode::SendFails | Mode::HandshakeLost) {
                    let r = s.rec.replies(&[(*l2, b2.clone())]);
                    s.rec_known = vec![false; n];
                    follow.extend(r);
                }
            }
        }
        for (l, b) in &follow {
            if stamps_liveness(b) {
                s.last_live_delivery[*l] = s.w.now;
            }
            s.last_delivered[*l] = s.w.now;
            s.w.arm_uplink(env, *l, b);
        }
        // clause 3a: clean rejoin at the step a link connects; clause 1 for REG_ERR
        for l in 0..n {
            let c = &s.w.connections[l];
            if c.connected && !pre_conn[l] {
                REJOINS.fetch_add(1, AO::Relaxed);
                if c.window != 20000 || c.in_flight_packets != 0 || !matches!(c.phase, LinkPhase::Warming { .. }) || !c.packet_log.is_empty() {
                    return Err(Fail::new(
                        "rejoin-not-clean",
                        format!("link {l} reconnected at +{} ms with window {}, in-flight {}, phase {}", s.w.now - T0, c.window, c.in_flight_packets, c.phase),
                    ));
                }
                s.mon[l].detected_down = false;
            }
            if !c.connected && pre_conn[l] && !reg_err_sent[l] {
                return Err(Fail::new(
                    "disconnected-by-an-inbound-datagram",
                    format!("link {l} lost its connected flag while receiver replies were processed, without a REG_ERR"),
                ));
            }
        }
        for l in 0..n {
            if s.mode[l] == Mode::Flap && s.w.connections[l].connected && !pre_conn[l] {
                s.mode[l] = Mode::BlackHole;
                FLAPS.fetch_add(1, AO::Relaxed);
            }
        }
        // ---- client traffic + ACKs
        if traffic {
            let usable_start: Vec<bool> = (0..n)
                .map(|l| {
                    let c = &s.w.connections[l];
                    !matches!(c.phase, LinkPhase::Registering) && c.connected && !oracle_timed_out(c, s.w.now, timeout)
                })
                .collect();
            let down_start: Vec<bool> = (0..n).map(|l| !s.w.connections[l].connected).collect();
            let established = s.w.reg.has_connected;
            let mut seen = vec![Vec::<u32>::new(); n];
            if let Some(g) = glitch {
                s.w.rx_open[g] = false;
            }
            for k in 0..datagrams {
                if let Some(g) = glitch {
                    if k == datagrams * 3 / 4 {
                        s.w.rx_open[g] = true;
                        // the 30 s clause counts from here
                        s.mon[g].ok_since = Some(s.w.now);
                    }
                }
                s.w.advance(if datagrams > 5 { 1 } else { 2 });
                let seq = s.next_seq;
                s.next_seq += 1;
                let p = srt_data(seq, false, seq, 188);
                let pre_bytes: Vec<u64> = s.w.connections.iter().map(|c| c.bitrate.bytes_sent_total).collect();
                let usable_now: Vec<bool> = (0..n)
                    .map(|l| {
                        let c = &s.w.connections[l];
                        !matches!(c.phase, LinkPhase::Registering) && c.connected && !oracle_timed_out(c, s.w.now, timeout)
                    })
                    .collect();
                let o = s.w.arm_client(env, &p);
                let queued_somewhere = (0..n).any(|l| s.w.connections[l].bitrate.bytes_sent_total > pre_bytes[l]);
                if established && usable_now.iter().any(|u| *u) && !queued_somewhere {
                    return Err(Fail::new(
                        "dropped-with-usable-link",
                        format!("client datagram dropped at +{} ms although links {usable_now:?} are usable (modes {:?})", s.w.now - T0, s.mode),
                    ));
                }
                for (l, b) in &o.wire {
                    if *l < n && client_type(b) && b.len() >= 4 {
                        seen[*l].push(u32::from_be_bytes([b[0], b[1], b[2], b[3]]));
                    }
                }
            }
            for l in 0..n {
                if !down_start[l] && !s.w.connections[l].connected {
                    SEND_FAIL_RESETS.fetch_add(1, AO::Relaxed);
                }
            }
            s.w.advance(15);
            let o = s.w.arm_flush(env);
            for (l, b) in &o.wire {
                if *l < n && client_type(b) && b.len() >= 4 {
                    seen[*l].push(u32::from_be_bytes([b[0], b[1], b[2], b[3]]));
                }
            }
            // clause 4b: a link that was down at the start of this second and still is carries no stream data
            for l in 0..n {
                if down_start[l] && !s.w.connections[l].connected && established && !seen[l].is_empty() && s.mon[l].detected_down {
                    return Err(Fail::new(
                        "stream-data-on-a-link-known-to-be-down",
                        format!("link {l} is disconnected (mode {:?}) but carried {} client datagrams in the second ending +{} ms", s.mode[l], seen[l].len(), s.w.now - T0),
                    ));
                }
            }
            let _ = usable_start;
            // receiver acknowledges what arrived on links it knows and that are not faulted
            s.w.advance(20);
            let mut top = 0u32;
            for l in 0..n {
                if matches!(s.mode[l], Mode::BlackHole | Mode::SendFails) || !s.rec_known[l] {
                    continue;
                }
                for q in &seen[l] {
                    let mut p = vec![0x91u8, 0x00, 0, 0];
                    p.extend_from_slice(&q.to_be_bytes());
                    s.last_live_delivery[l] = s.w.now;
                    s.last_delivered[l] = s.w.now;
                    s.w.arm_uplink(env, l, &p);
                    top = top.max(*q);
                }
            }
            if top > 0 && self.level == 6 {
                // a receiver that sends the cumulative SRT ACK to every link of the group it knows
                for l in 0..n {
                    if matches!(s.mode[l], Mode::BlackHole | Mode::SendFails) || !s.rec_known[l] {
                        continue;
                    }
                    let mut p = vec![0u8; 44];
                    p[0] = 0x80;
                    p[1] = 0x02;
                    p[16..20].copy_from_slice(&top.to_be_bytes());
                    s.last_live_delivery[l] = s.w.now;
                    s.last_delivered[l] = s.w.now;
                    s.w.arm_uplink(env, l, &p);
                }
            } else if top > 0 {
                if let Some(l) = (0..n).find(|l| !matches!(s.mode[*l], Mode::BlackHole | Mode::SendFails) && s.rec_known[*l]) {
                    let mut p = vec![0u8; 44];
                    p[0] = 0x80;
                    p[1] = 0x02;
                    p[16..20].copy_from_slice(&top.to_be_bytes());
                    s.last_live_delivery[l] = s.w.now;
                    s.last_delivered[l] = s.w.now;
                    s.w.arm_uplink(env, l, &p);
                }
            }
        }
        // ---- clause 3b: bounded rejoin
        for l in 0..n {
            let healthy = s.mode[l] == Mode::Ok && !s.w.bind_fail[l];
            if !healthy {
                s.mon[l].ok_since = None;
                continue;
            }
            if s.mon[l].ok_since.is_none() {
                s.mon[l].ok_since = Some(s.w.now);
            }
            let c = &s.w.connections[l];
            if !c.connected && !s.mon[l].had_bind_fault {
                let since = s.mon[l].ok_since.unwrap();
                if s.w.now - since > 30_000 {
                    // one way of getting here is a recorded finding (known_findings.json) and has a key of its own, judged
                    // on the harness's own clocks: the link was handed stamp-refreshing datagrams all along (so it never
                    // counts as silent) and no reconnect attempt was made since the path is fine
                    let kept_fresh = s.w.now.saturating_sub(s.last_live_delivery[l]) < timeout && s.mon[l].last_attempt <= since;
                    return Err(Fail::new(
                        if kept_fresh { "not-rejoined-within-30s:soft-reset-link-kept-fresh-by-receiver-traffic-is-never-retried" } else { "not-rejoined-within-30s" },
                        format!("link {l}: path and receiver fine since +{} ms, still not connected at +{} ms (failure count {}, last attempt +{} ms)", since - T0, s.w.now - T0, c.reconnection.reconnect_failure_count, c.reconnection.last_reconnect_attempt_ms.saturating_sub(T0)),
                    ));
                }
            }
        }
        Ok(())
    }
}

impl Model for M {
    type S = St;
    type W = Env;
    fn worker(&self) -> Env {
        Env::new()
    }
    fn n_inits(&self) -> usize {
        1
    }
    fn init_name(&self, _i: usize) -> String {
        "established, receiver knows every link, configured timeout applied at start-up".into()
    }
    fn init(&self, env: &mut Env, _i: usize) -> St {
        let mode = if self.classic { SchedulingMode::Classic } else { SchedulingMode::Enhanced };
        let cfg = DynamicConfig::from_cli(mode, false, false, 32, 3000, self.timeout);
        let (w, rec) = established(env, self.n, cfg, T0);
        let now0 = w.now;
        St {
            rec,
            mode: vec![Mode::Ok; self.n],
            mon: vec![LinkMon { last_attempt: 0, ok_since: Some(T0), had_bind_fault: false, detected_down: false }; self.n],
            next_seq: 1000,
            rec_known: vec![true; self.n],
            // scripted start state: the clocks start from the links' own stamps
            last_delivered: (0..self.n).map(|l| w.connections[l].last_received.unwrap_or(now0)).collect(),
            last_live_delivery: (0..self.n).map(|l| w.connections[l].last_received.unwrap_or(now0)).collect(),
            w,
        }
    }
    fn n_events(&self) -> usize {
        self.events.len()
    }
    fn event_name(&self, e: usize) -> String {
        format!("{:?}", self.events[e])
    }
    fn enabled(&self, s: &St, e: usize) -> bool {
        match self.events[e] {
            Ev::Fault(l, m) => s.mode[l] != m,
            Ev::Repair(l) => s.mode[l] != Mode::Ok,
            Ev::BindFails(l) => !s.w.bind_fail[l],
            Ev::BindOk(l) => s.w.bind_fail[l],
            _ => true,
        }
    }
    fn step(&self, env: &mut Env, s: &mut St, e: usize) -> Result<(), Fail> {
        match self.events[e] {
            Ev::Sec => self.second(env, s, 5),
            Ev::SecIdle => self.second(env, s, 0),
            Ev::SecBurst => self.second(env, s, 40),
            Ev::SecGlitch(l) => self.second_g(env, s, 40, Some(l)),
            Ev::Fault(l, m) => {
                s.mode[l] = m;
                s.w.rx_open[l] = m != Mode::SendFails;
                Ok(())
            }
            Ev::Repair(l) => {
                s.mode[l] = Mode::Ok;
                s.w.rx_open[l] = true;
                Ok(())
            }
            Ev::BindFails(l) => {
                s.w.bind_fail[l] = true;
                s.mon[l].had_bind_fault = true;
                Ok(())
            }
            Ev::BindOk(l) => {
                s.w.bind_fail[l] = false;
                Ok(())
            }
            Ev::Forget => {
                s.rec.group = None;
                s.rec_known = vec![false; self.n];
                // the 30 s clause restarts: nobody is registered at the receiver any more
                for m in s.mon.iter_mut() {
                    m.ok_since = None;
                }
                Ok(())
            }
        }
    }
    fn fingerprint(&self, s: &St) -> u64 {
        let v: Vec<(bool, u8, u32, Mode, u64)> = s
            .w
            .connections
            .iter()
            .enumerate()
            .map(|(l, c)| {
                (
                    c.connected,
                    match c.phase {
                        LinkPhase::Registering => 0,
                        LinkPhase::Warming { .. } => 1,
                        LinkPhase::Live => 2,
                        LinkPhase::Degraded => 3,
                    },
                    c.reconnection.reconnect_failure_count,
                    s.mode[l],
                    (s.w.now - c.last_received.unwrap_or(s.w.now)) / 1000,
                )
            })
            .collect();
        engine::hash_of(&v)
    }
}

fn models(tier: Tier) -> Vec<(String, Arc<M>, Vec<Plan>)> {
    let sec = 0usize;
    let idle = 1usize;
    let mut pre: Vec<(String, Arc<M>, Vec<Plan>)> = Vec::new();
    {
        let m = Arc::new(M::new(2, 5000, false, 6));
        pre.push((m.name.clone(), m, vec![Plan::Dev { k: 1, depth: 40, default: Arc::new(move |_| 3) }, Plan::Dev { k: 1, depth: 40, default: Arc::new(move |_| 0) }]));
    }
    let mut out = pre;
    let mk = |n: usize, timeout: u64, classic: bool, level: u8| Arc::new(M::new(n, timeout, classic, level));
    if tier.is_quick() {
        let m = mk(2, 5000, false, 1);
        out.push((m.name.clone(), m, vec![Plan::Dev { k: 2, depth: 25, default: Arc::new(move |_| sec) }]));
        let m = mk(2, 15000, false, 0);
        out.push((
            m.name.clone(),
            m,
            vec![
                Plan::Dev { k: 1, depth: 45, default: Arc::new(move |_| sec) },
                Plan::Dev { k: 1, depth: 45, default: Arc::new(move |_| idle) },
            ],
        ));
        let m = mk(2, 1000, true, 0);
        out.push((m.name.clone(), m, vec![Plan::Dev { k: 2, depth: 20, default: Arc::new(move |_| sec) }]));
        let m = mk(2, 5000, false, 2);
        out.push((m.name.clone(), m, vec![Plan::Dev { k: 2, depth: 14, default: Arc::new(move |_| idle) }]));
        let m = mk(3, 5000, true, 0);
        out.push((m.name.clone(), m, vec![Plan::Dev { k: 2, depth: 16, default: Arc::new(move |_| sec) }]));
        let m = mk(2, 60000, false, 0);
        out.push((m.name.clone(), m, vec![Plan::Dev { k: 1, depth: 100, default: Arc::new(move |_| idle) }]));
        let m = mk(2, 5000, false, 5);
        out.push((m.name.clone(), m, vec![Plan::Dev { k: 3, depth: 16, default: Arc::new(move |_| 0) }]));
        // long outages, then a repair or a flap (level-4 alphabet: SecIdle is symbol 0, Sec symbol 1)
        let m = mk(2, 5000, false, 4);
        out.push((
            m.name.clone(),
            m,
            vec![
                Plan::Dev { k: 2, depth: 100, default: Arc::new(move |_| 0) },
                Plan::Dev { k: 3, depth: 24, default: Arc::new(move |_| 0) },
            ],
        ));
    } else {
        for (timeout, classic) in [(5000u64, false), (1000, false), (15000, true), (60000, false)] {
            let m = mk(2, timeout, classic, 2);
            out.push((
                m.name.clone(),
                m,
                vec![
                    Plan::Dev { k: 2, depth: 45, default: Arc::new(move |_| sec) },
                    Plan::Dev { k: 2, depth: 45, default: Arc::new(move |_| idle) },
                    Plan::Dev { k: 3, depth: if timeout == 1000 { 12 } else { 16 }, default: Arc::new(move |_| sec) },
                ],
            ));
        }
        let m = mk(3, 5000, false, 1);
        out.push((m.name.clone(), m, vec![Plan::Dev { k: 2, depth: 30, default: Arc::new(move |_| sec) }]));
        let m = mk(4, 5000, false, 0);
        out.push((m.name.clone(), m, vec![Plan::Dev { k: 2, depth: 25, default: Arc::new(move |_| sec) }]));
        for (timeout, classic) in [(5000u64, false), (15000, true)] {
            let m = mk(2, timeout, classic, 4);
            out.push((
                m.name.clone(),
                m,
                vec![
                    Plan::Dev { k: 2, depth: 150, default: Arc::new(move |_| 0) },
                    Plan::Dev { k: 2, depth: 150, default: Arc::new(move |_| 1) },
                    Plan::Dev { k: 3, depth: 45, default: Arc::new(move |_| 0) },
                    Plan::Dev { k: 3, depth: 45, default: Arc::new(move |_| 1) },
                ],
            ));
        }
        for (timeout, classic) in [(5000u64, false), (1000, true)] {
            let m = mk(2, timeout, classic, 5);
            out.push((m.name.clone(), m, vec![Plan::Dev { k: 3, depth: 24, default: Arc::new(move |_| 0) }, Plan::Dev { k: 4, depth: 14, default: Arc::new(move |_| 0) }]));
        }
        // across the 120 s back-off cap: socket re-creation failing
        let m = mk(2, 5000, false, 3);
        out.push((m.name.clone(), m, vec![Plan::Dev { k: 2, depth: 140, default: Arc::new(move |_| 0) }]));
    }
    out
}

/// Pure back-off arithmetic for every failure count.
fn backoff_product(rep: &mut Report) -> u64 {
    let mut n = 0u64;
    let counts: Vec<u32> = (0..=40).chain([1000, u32::MAX - 1, u32::MAX]).collect();
    for established in [false, true] {
        for &count in &counts {
            for last in [1u64, 1_000_000] {
                let r = ReconnectionState {
                    last_reconnect_attempt_ms: last,
                    reconnect_failure_count: count,
                    connection_established_ms: if established { 5 } else { 0 },
                    startup_grace_deadline_ms: 0,
                };
                // smallest delay after which a retry is allowed (monotone: binary search)
                let (mut lo, mut hi) = (0u64, 400_000u64);
                if !r.should_attempt_reconnect(last + hi) {
                    rep.add_violation(crate::evidence::Violation {
                        key: "backoff-exceeds-120s".into(),
                        message: format!("failure count {count}, established {established}: no retry allowed even 400 s after the last attempt"),
                        replay: json!({"exploration": "backoff", "count": count, "established": established}),
                    });
                    continue;
                }
                while lo < hi {
                    let mid = (lo + hi) / 2;
                    n += 1;
                    if r.should_attempt_reconnect(last + mid) {
                        hi = mid;
                    } else {
                        lo = mid + 1;
                    }
                }
                let delay = lo;
                let min = if established { 5000 } else { 1000 };
                let bad = if delay > 120_000 {
                    Some("backoff-exceeds-120s")
                } else if delay < min {
                    Some("backoff-below-minimum")
                } else {
                    None
                };
                if let Some(k) = bad {
                    rep.add_violation(crate::evidence::Violation {
                        key: k.into(),
                        message: format!("failure count {count}, established {established}: a retry is allowed {delay} ms after the last attempt (must be within [{min}, 120000])"),
                        replay: json!({"exploration": "backoff", "count": count, "established": established}),
                    });
                }
            }
        }
    }
    n
}

pub fn run(tier: Tier) -> Report {
    let mut rep = Report::new();
    // the real loop first: it needs no mirror, so it also decides trees whose glue was edited
    crate::realx::run_for(&mut rep, "C08", tier.is_quick());
    if let Err(e) = glue_fingerprint() {
        rep.machinery_errors.push(format!("{e} (the mirrored explorations were skipped; the real-loop explorations above were run)"));
        return rep;
    }
    let lim = Limits {
        wall: Duration::from_secs(if tier.is_quick() { 45 } else { 3000 }),
        ..Default::default()
    };
    for (label, m, plans) in models(tier) {
        for plan in plans {
            let ex = engine::explore(&*m, &plan, &lim);
            engine::fold(&mut rep, &*m, &format!("{label} {}", plan.describe()), &plan, ex);
        }
        if m.level != 3 {
            rep.set(&format!("alphabet[{label}]"), json!((0..m.n_events()).map(|e| m.event_name(e)).collect::<Vec<_>>()));
        }
    }
    let cov = json!({
        "teardowns_by_housekeeping": TEARDOWNS.load(AO::Relaxed),
        "rejoins": REJOINS.load(AO::Relaxed),
        "flaps_gone_dark_after_reg3": FLAPS.load(AO::Relaxed),
        "resets_by_failed_send_during_traffic": SEND_FAIL_RESETS.load(AO::Relaxed),
    });
    for (k, v) in cov.as_object().unwrap() {
        if v.as_u64() == Some(0) {
            rep.machinery_errors.push(format!("vacuous: no explored run went through '{k}'"));
        }
    }
    rep.set("situations_covered", cov);
    let n = backoff_product(&mut rep);
    rep.transitions += n;
    rep.set("backoff_predicate_calls", json!(n));
    rep.set("macro_step", json!("Sec = +1000 ms housekeeping pass; the fake receiver (group id, per-link registration) answers every REG1/REG2/keepalive it saw on links that are not faulted; 5 client datagrams + flush tick; SRTLA ACK per datagram and one cumulative SRT ACK on non-faulted, registered links. SecIdle = the same without client traffic (so no scheduling decision happens)."));
    rep.set("oracle", json!("temporal monitor over virtual time: (1) connected falls / phase returns to Registering during housekeeping only if the link's receive age >= the timeout configured in DynamicConfig at that pass (own rule) or its sends fail; outside housekeeping only on REG_ERR; (1b) detection: a connected link to which the harness has delivered nothing for the configured timeout (the harness's own delivery clock, not the link's receive stamp) and whose back-off predicate allows a retry is torn down by that housekeeping pass; (2) consecutive reconnect attempts on one link >= 1000 ms apart before first establishment and >= 5000 ms after, and while the link is down never more than 120000 + one period apart; for every failure count the pure predicate allows a retry after a delay within [1000|5000, 120000]; (3) a link whose path and receiver have been fine for 30 s (and that never had a socket re-creation fault) is connected; at the step it connects: window 20000, in-flight 0, empty log, phase Warming; (4) no client datagram is dropped while a usable link exists, and none is carried by a link that was already known to be down"));
    rep.assume("'retried forever' is decided up to the explored horizon (D seconds; 140 s in the thorough back-off run) plus the pure back-off arithmetic for all failure counts; the 30 s rejoin bound assumes local socket re-creation succeeds");
    rep.assume("the select! glue is mirrored (world.rs) and bound by a call-order + token digest fingerprint; faults: black hole, flap (the path delivers until REG3 and goes dark before any echo or ACK), lost handshake replies, REG_ERR answers, receiver restart (group forgotten), socket send errors (receiver port closed), socket re-creation errors (UplinkBinder seam)");
    rep
}

pub fn replay(v: &Value) -> Result<(), String> {
    if let Some(r) = crate::realx::replay_for("C08", v) {
        return r;
    }
    if v["exploration"] == "backoff" {
        let mut rep = Report::new();
        backoff_product(&mut rep);
        return match rep.violations.first() {
            None => Ok(()),
            Some(x) => Err(format!("[{}] {}", x.key, x.message)),
        };
    }
    let mut ms = Vec::new();
    for tier in [Tier::Quick, Tier::Thorough] {
        for (l, m, _) in models(tier) {
            ms.push((l, m));
        }
    }
    engine::replay_json(&ms, v)
}
