//! C06 — congestion windows stay in [1000, 60000] and move in the right direction.
//!
//! History exploration of the real window code of one `SrtlaConnection`
//! (NAK, earned SRTLA ACK in both modes, global ACK, time-based recovery,
//! the three resets) with an invariant / direction monitor, from a library of
//! start windows reached by real NAK/ACK runs.

use std::sync::Arc;
use std::time::Duration;

use serde_json::{Value, json};
use srtla_core::connection::SrtlaConnection;

use crate::engine::{self, Fail, Limits, Model, Plan};
use crate::evidence::{Report, Tier};
use crate::util::{T0, live_conn, set_now};

const WMIN: i32 = 1000;
const WMAX: i32 = 60000;
const WDEF: i32 = 20000;

#[derive(Clone, Copy, Debug, PartialEq)]
enum AckV {
    Zero,
    One,
    AtWindow,
    AboveWindow,
}

#[derive(Clone, Copy, Debug, PartialEq)]
enum Ev {
    Nak,
    NakUnheld,
    NakBurst12,
    Ack(AckV),
    /// extreme in-flight value straight into the real CongestionControl rule
    AckRaw(i32),
    Global,
    Recover(u64),
    /// non-finite / boundary velocities straight into the real recovery rule
    RecoverRaw(u64, u8),
    RttFlat,
    RttRising,
    RttFalling,
    ResetRecovery,
    ResetReconnect,
    Reg3,
}

const RAW_VEL: [f64; 5] = [2.0, 2.1, f64::INFINITY, f64::NAN, f64::NEG_INFINITY];

#[derive(Clone)]
pub struct St {
    now: u64,
    c: SrtlaConnection,
    next_seq: i32,
}

pub struct M {
    classic: bool,
    events: Vec<Ev>,
    starts: Vec<i32>,
}

impl M {
    fn new(classic: bool, starts: Vec<i32>, reduced: bool) -> Self {
        let mut events = vec![
            Ev::Nak,
            Ev::Ack(AckV::AboveWindow),
            Ev::Global,
            Ev::Recover(2001),
            Ev::Recover(10001),
            Ev::NakBurst12,
            Ev::Ack(AckV::AtWindow),
            Ev::Recover(501),
            Ev::Recover(1001),
            Ev::ResetRecovery,
            Ev::Reg3,
            Ev::RttRising,
            Ev::AckRaw(i32::MAX),
            Ev::RecoverRaw(2001, 3),
        ];
        if !reduced {
            events.extend([
                Ev::NakUnheld,
                Ev::Ack(AckV::Zero),
                Ev::Ack(AckV::One),
                Ev::AckRaw(2_147_483),
                Ev::AckRaw(2_147_484),
                Ev::Recover(1),
                Ev::Recover(301),
                Ev::Recover(5001),
                Ev::Recover(7001),
                Ev::RecoverRaw(2001, 0),
                Ev::RecoverRaw(2001, 1),
                Ev::RecoverRaw(2001, 2),
                Ev::RecoverRaw(10001, 4),
                Ev::RttFlat,
                Ev::RttFalling,
                Ev::ResetReconnect,
            ]);
        }
        Self {
            classic,
            events,
            starts,
        }
    }

    fn label(&self) -> String {
        format!(
            "mode={} alphabet={} starts={}",
            if self.classic { "classic" } else { "enhanced" },
            self.events.len(),
            self.starts.len()
        )
    }
}

/// Drive a fresh link's window to `target` with the real NAK / ACK code only.
fn drive_to(c: &mut SrtlaConnection, now: &mut u64, next_seq: &mut i32, classic: bool, target: i32) {
    let nak = |c: &mut SrtlaConnection, now: &mut u64, next_seq: &mut i32| {
        *now += 1200; // isolated NAKs (no burst)
        let s = *next_seq;
        *next_seq += 1;
        c.register_packet(s, *now);
        c.handle_nak(s, *now);
    };
    let mut guard = 0;
    while c.window > target && c.window > WMIN {
        nak(c, now, next_seq);
        guard += 1;
        assert!(guard < 1000);
    }
    // +29 steps through earned ACKs with a full pipe
    while c.window + 29 <= target {
        *now += 1;
        let first = *next_seq;
        let need = c.window / 1000 + 2;
        for _ in 0..need {
            c.register_packet(*next_seq, *now);
            *next_seq += 1;
        }
        c.handle_srtla_ack_specific(first, classic, *now);
        c.handle_srt_ack(*next_seq - 1, *now);
        guard += 1;
        assert!(guard < 10000);
    }
    while c.window < target {
        c.handle_srtla_ack_global();
    }
    assert_eq!(c.window, target, "start window not reachable");
}

impl Model for M {
    type S = St;
    type W = ();

    fn worker(&self) {}
    fn n_inits(&self) -> usize {
        self.starts.len()
    }
    fn init_name(&self, i: usize) -> String {
        format!("window={}", self.starts[i])
    }
    fn init(&self, _w: &mut (), i: usize) -> St {
        set_now(T0);
        let mut s = St {
            now: T0,
            c: live_conn(0, T0),
            next_seq: 1000,
        };
        assert_eq!(s.c.window, WDEF, "a new link must start at 20000");
        if self.starts[i] != WDEF {
            drive_to(&mut s.c, &mut s.now, &mut s.next_seq, self.classic, self.starts[i]);
        }
        s
    }
    fn n_events(&self) -> usize {
        self.events.len()
    }
    fn event_name(&self, e: usize) -> String {
        format!("{:?}", self.events[e])
    }

    fn step(&self, _w: &mut (), s: &mut St, e: usize) -> Result<(), Fail> {
        let ev = self.events[e];
        let w0 = s.c.window;
        let fr0 = s.c.congestion.fast_recovery_mode;
        let mut reset = false;
        s.now += 1;
        match ev {
            Ev::Nak | Ev::NakUnheld | Ev::NakBurst12 => {
                let n = if ev == Ev::NakBurst12 { 12 } else { 1 };
                let mut expect = w0;
                for _ in 0..n {
                    s.now += 1;
                    let q = s.next_seq;
                    s.next_seq += 1;
                    if ev != Ev::NakUnheld {
                        s.c.register_packet(q, s.now);
                        expect = (expect - 100).max(WMIN);
                    }
                    let found = s.c.handle_nak(q, s.now);
                    if found != (ev != Ev::NakUnheld) {
                        return Err(Fail::new("nak-found", format!("{ev:?}: handle_nak returned {found}")));
                    }
                }
                if s.c.window != expect {
                    return Err(Fail::new(
                        "nak-step",
                        format!("{ev:?}: window {w0} -> {} expected {expect} (exactly -100 per charged NAK, floored at 1000)", s.c.window),
                    ));
                }
            }
            Ev::Ack(v) => {
                let target_v: i32 = match v {
                    AckV::Zero => 0,
                    AckV::One => 1,
                    AckV::AtWindow => w0 / 1000,
                    AckV::AboveWindow => w0 / 1000 + 1,
                };
                let first = s.next_seq;
                for _ in 0..(target_v + 1) {
                    s.c.register_packet(s.next_seq, s.now);
                    s.next_seq += 1;
                }
                let found = s.c.handle_srtla_ack_specific(first, self.classic, s.now);
                if !found || s.c.in_flight_packets != target_v {
                    return Err(Fail::new(
                        "ack-accounting",
                        format!("{ev:?}: found={found} in_flight={} expected {target_v}", s.c.in_flight_packets),
                    ));
                }
                let expect = if (target_v as i64) * 1000 > w0 as i64 {
                    (w0 + 29).min(WMAX)
                } else {
                    w0
                };
                if s.c.window != expect {
                    return Err(Fail::new(
                        "ack-step",
                        format!("{ev:?}: in_flight {target_v}, window {w0} -> {} expected {expect}", s.c.window),
                    ));
                }
                // retire the rest with a cumulative ACK (must not move the window)
                let w1 = s.c.window;
                s.c.handle_srt_ack(s.next_seq - 1, s.now);
                if s.c.window != w1 || s.c.in_flight_packets != 0 {
                    return Err(Fail::new("cumulative-ack", format!("{ev:?}: cumulative ACK moved window or left packets")));
                }
            }
            Ev::AckRaw(v) => {
                if self.classic {
                    s.c.congestion.handle_srtla_ack_specific_classic(&mut s.c.window, v, 0, "raw");
                } else {
                    s.c.congestion.handle_srtla_ack_enhanced(&mut s.c.window, v, "raw", s.now);
                }
                let expect = if (v as i64) * 1000 > w0 as i64 {
                    (w0 + 29).min(WMAX)
                } else {
                    w0
                };
                if s.c.window != expect {
                    return Err(Fail::new(
                        "ack-step",
                        format!("{ev:?}: window {w0} -> {} expected {expect}", s.c.window),
                    ));
                }
            }
            Ev::Global => {
                s.c.handle_srtla_ack_global();
                let expect = if s.c.connected && s.c.last_received.is_some() {
                    (w0 + 1).min(WMAX)
                } else {
                    w0
                };
                if s.c.window != expect {
                    return Err(Fail::new(
                        "global-ack-step",
                        format!("{ev:?}: window {w0} -> {} expected {expect}", s.c.window),
                    ));
                }
            }
            Ev::Recover(dt) => {
                s.now += dt;
                s.c.perform_window_recovery(s.now);
                if s.c.window < w0 || s.c.window - w0 > 120 {
                    return Err(Fail::new(
                        "recovery-step",
                        format!("{ev:?}: window {w0} -> {} (must not decrease; one tick adds at most 120)", s.c.window),
                    ));
                }
            }
            Ev::RecoverRaw(dt, vi) => {
                s.now += dt;
                let connected = s.c.connected;
                s.c.congestion.perform_window_recovery(
                    &mut s.c.window,
                    connected,
                    RAW_VEL[vi as usize],
                    "raw",
                    s.now,
                );
                if s.c.window < w0 || s.c.window - w0 > 120 {
                    return Err(Fail::new(
                        "recovery-step",
                        format!("{ev:?}: window {w0} -> {}", s.c.window),
                    ));
                }
            }
            Ev::RttFlat => {
                for _ in 0..4 {
                    s.now += 10;
                    s.c.rtt.update_estimate(50, s.now);
                }
            }
            Ev::RttRising => {
                let base = s.c.get_smooth_rtt_ms().max(20.0) as u64;
                for i in 1..=4u64 {
                    s.now += 10;
                    s.c.rtt.update_estimate(base + 40 * i, s.now);
                }
            }
            Ev::RttFalling => {
                let base = s.c.get_smooth_rtt_ms().max(200.0) as u64;
                for i in 1..=4u64 {
                    s.now += 10;
                    s.c.rtt.update_estimate(base.saturating_sub(40 * i).max(1), s.now);
                }
            }
            Ev::ResetRecovery => {
                s.c.mark_for_recovery();
                reset = true;
                if s.c.window != WDEF {
                    return Err(Fail::new("reset-window", format!("{ev:?}: window {} after teardown, expected 20000", s.c.window)));
                }
            }
            Ev::ResetReconnect => {
                s.c.reset_for_reconnect(s.now);
                reset = true;
                if s.c.window != WDEF {
                    return Err(Fail::new("reset-window", format!("{ev:?}: window {} after reconnect, expected 20000", s.c.window)));
                }
            }
            Ev::Reg3 => {
                s.c.clear_pre_registration_state(s.now);
                s.c.connected = true;
                s.c.last_received = Some(s.now);
                reset = true;
            }
        }
        let w1 = s.c.window;
        if !(WMIN..=WMAX).contains(&w1) {
            return Err(Fail::new("window-out-of-range", format!("{ev:?}: window {w0} -> {w1}")));
        }
        let nak_ev = matches!(ev, Ev::Nak | Ev::NakUnheld | Ev::NakBurst12);
        if nak_ev && w1 > w0 {
            return Err(Fail::new("nak-increased-window", format!("{ev:?}: window {w0} -> {w1}")));
        }
        let up_ev = matches!(
            ev,
            Ev::Ack(_) | Ev::AckRaw(_) | Ev::Global | Ev::Recover(_) | Ev::RecoverRaw(..)
        );
        if up_ev && w1 < w0 {
            return Err(Fail::new("ack-or-recovery-decreased-window", format!("{ev:?}: window {w0} -> {w1}")));
        }
        if matches!(ev, Ev::RttFlat | Ev::RttRising | Ev::RttFalling) && w1 != w0 {
            return Err(Fail::new("rtt-sample-moved-window", format!("{ev:?}: window {w0} -> {w1}")));
        }
        let fr1 = s.c.congestion.fast_recovery_mode;
        if !fr0 && fr1 && w1 > 2000 {
            return Err(Fail::new("fast-recovery-entered-above-2000", format!("{ev:?}: window {w0} -> {w1}")));
        }
        if fr0 && !fr1 && !(w1 >= 12000 || reset) {
            return Err(Fail::new("fast-recovery-left-below-12000", format!("{ev:?}: window {w0} -> {w1}")));
        }
        if !s.c.rtt.kalman_rtt.value().is_finite() {
            return Err(Fail::new("rtt-non-finite", format!("{ev:?}")));
        }
        Ok(())
    }

    fn fingerprint(&self, s: &St) -> u64 {
        engine::hash_of(&(
            s.c.window,
            s.c.congestion.fast_recovery_mode,
            s.c.connected,
            s.c.congestion.nak_burst_count,
            s.c.congestion.nak_count,
        ))
    }
}

const STARTS_ALL: [i32; 9] = [20000, 1000, 1999, 2000, 2099, 11971, 12000, 59971, 60000];

fn idx(m: &M, ev: Ev) -> usize {
    m.events.iter().position(|e| *e == ev).unwrap()
}

fn models(tier: Tier) -> Vec<(String, Arc<M>, Vec<Plan>)> {
    let mut out = Vec::new();
    for classic in [false, true] {
        if tier.is_quick() {
            let m = Arc::new(M::new(classic, STARTS_ALL.to_vec(), true));
            out.push((m.label(), m, vec![Plan::Full { depth: 5 }]));
            let m = Arc::new(M::new(classic, STARTS_ALL.to_vec(), false));
            out.push((m.label(), m, vec![Plan::Full { depth: 4 }]));
            let m = Arc::new(M::new(classic, vec![20000], true));
            let nak = idx(&m, Ev::Nak);
            let k = if classic { 1 } else { 2 };
            out.push((
                m.label(),
                m,
                vec![Plan::Dev { k, depth: 200, default: Arc::new(move |_| nak) }],
            ));
            let m = Arc::new(M::new(classic, vec![59971, 11971], true));
            let ack = idx(&m, Ev::Ack(AckV::AboveWindow));
            out.push((
                m.label(),
                m,
                vec![Plan::Dev { k: 2, depth: 24, default: Arc::new(move |_| ack) }],
            ));
        } else {
            let m = Arc::new(M::new(classic, STARTS_ALL.to_vec(), true));
            out.push((m.label(), m, vec![Plan::Full { depth: 6 }]));
            let m = Arc::new(M::new(classic, STARTS_ALL.to_vec(), false));
            out.push((m.label(), m, vec![Plan::Full { depth: 4 }]));
            let m = Arc::new(M::new(classic, vec![20000], false));
            out.push((m.label(), m, vec![Plan::Full { depth: 5 }]));
            let m = Arc::new(M::new(classic, vec![20000, 59971, 1999], true));
            let nak = idx(&m, Ev::Nak);
            let ack = idx(&m, Ev::Ack(AckV::AboveWindow));
            let rec = idx(&m, Ev::Recover(2001));
            out.push((
                m.label(),
                m,
                vec![
                    Plan::Dev { k: 2, depth: 200, default: Arc::new(move |_| nak) },
                    Plan::Dev { k: 3, depth: 36, default: Arc::new(move |_| nak) },
                    Plan::Dev { k: 3, depth: 30, default: Arc::new(move |_| ack) },
                    Plan::Dev { k: 3, depth: 30, default: Arc::new(move |_| rec) },
                ],
            ));
        }
    }
    out
}

pub fn run(tier: Tier) -> Report {
    let mut rep = Report::new();
    let lim = Limits {
        wall: Duration::from_secs(if tier.is_quick() { 40 } else { 600 }),
        ..Default::default()
    };
    for (label, m, plans) in models(tier) {
        for plan in plans {
            let ex = engine::explore(&*m, &plan, &lim);
            engine::fold(&mut rep, &*m, &format!("{label} {}", plan.describe()), &plan, ex);
        }
        rep.set(
            &format!("alphabet[{label}]"),
            json!((0..m.n_events()).map(|e| m.event_name(e)).collect::<Vec<_>>()),
        );
    }
    rep.set("start_windows", json!(STARTS_ALL));
    rep.set(
        "oracle",
        json!("after every event: 1000<=window<=60000; new link and every teardown (mark_for_recovery / reset_for_reconnect) => 20000; charged NAK => exactly max(w-100,1000), unheld NAK => unchanged; earned ACK => w or min(w+29,60000) exactly per in_flight*1000>w (in-flight up to i32::MAX); global ACK => min(w+1,60000) iff connected and heard; recovery tick => never lower, at most +120; RTT samples never move the window; fast-recovery rises only onto a window <=2000 and falls only at >=12000 or on a reset"),
    );
    rep.assume("time-based recovery is exercised at the connection level (SrtlaConnection::perform_window_recovery); that classic mode never calls it is a property of the housekeeping arm and is decided by C10's world exploration");
    rep.assume("non-finite / boundary RTT velocities and in-flight counts above what a registration history can reach are injected at the real CongestionControl entry points with the link's own window");
    rep.assume("histories are bounded by the stated depths / deviation bounds");
    rep
}

pub fn replay(v: &Value) -> Result<(), String> {
    let mut ms = Vec::new();
    for tier in [Tier::Quick, Tier::Thorough] {
        for (l, m, _) in models(tier) {
            ms.push((l, m));
        }
    }
    engine::replay_json(&ms, v)
}
