//! C03 — no blackout: a usable uplink always gets the packet.
//!
//! Exhaustive product enumeration of link states (1..4 links) x every
//! configuration through the real `select_connection_idx`; oracle: if the
//! harness's own `usable` predicate holds for some link, the result is `Some`.

use std::sync::Mutex;
use std::sync::atomic::{AtomicU64, Ordering};

use serde_json::{Value, json};
use srtla_core::connection::SrtlaConnection;
use srtla_core::mode::SchedulingMode;
use srtla_core::selection::select_connection_idx;

use crate::engine::{hash_of, par_map};
use crate::evidence::{Report, Tier, Violation};
use crate::sel::*;
use crate::util::T0;

const NOW: u64 = T0 + 1_000_000;

fn lib_full() -> Vec<Spec> {
    let mut v = Vec::new();
    for life in LIFE_ALL {
        for rx in RX_ALL {
            for load in LOAD_ALL {
                for queued in [0u8, 5] {
                    for window in [1000, 20000, 60000] {
                        for stall in STALL_ALL {
                            for gate in GATE_ALL {
                                for cc in CC_3 {
                                    for nak in NAK_3 {
                                        v.push(Spec { life, rx, load, queued, window, stall, gate, cc, nak, rtt: 0, age: 60_000 });
                                    }
                                }
                            }
                        }
                    }
                }
            }
        }
    }
    v
}

pub fn lib_576() -> Vec<Spec> {
    let mut v = Vec::new();
    for life in LIFE_ALL {
        for rx in [RxAge::Fresh, RxAge::AtTimeout] {
            for load in [Load::Zero, Load::AtMin, Load::Huge] {
                for stall in [Stall::NoProof, Stall::LatchedStale, Stall::Pulled] {
                    for gate in [Gate::None, Gate::Weak] {
                        for cc in [Cc::Zero, Cc::Tiny] {
                            v.push(Spec { life, rx, load, stall, gate, cc, ..Spec::clean() });
                        }
                    }
                }
            }
        }
    }
    v
}

/// Archetypes: one per (usable?, gate) combination the property text names.
fn archetypes() -> Vec<Spec> {
    let c = Spec::clean();
    vec![
        c,
        Spec { load: Load::Huge, stall: Stall::LatchedStale, ..c },
        Spec { load: Load::AtMin, stall: Stall::Pulled, ..c },
        Spec { gate: Gate::Weak, ..c },
        Spec { gate: Gate::LossDegraded, load: Load::Huge, cc: Cc::Tiny, ..c },
        Spec { load: Load::Huge, cc: Cc::Tiny, ..c },
        Spec { rx: RxAge::AtTimeout, ..c },
        Spec { load: Load::Huge, cc: Cc::Tiny, stall: Stall::LatchedStale, ..c },
    ]
}

pub fn lib_arch(lives: &[Life]) -> Vec<Spec> {
    let mut v = Vec::new();
    for life in lives {
        for a in archetypes() {
            v.push(Spec { life: *life, ..a });
        }
    }
    v
}

pub struct Acc {
    /// judge C04's selector clause (the returned link is eligible) instead of C03's
    c04: bool,
    calls: AtomicU64,
    with_usable: AtomicU64,
    none_results: AtomicU64,
    distinct: Mutex<std::collections::HashSet<u64>>,
    fails: Mutex<Vec<Violation>>,
    fail_n: Mutex<std::collections::BTreeMap<String, u64>>,
}

#[allow(clippy::too_many_arguments)]
fn one_call(
    acc: &Acc,
    local: &mut Vec<u64>,
    specs: &[&Spec],
    links: &[SrtlaConnection],
    mode: SchedulingMode,
    quality: bool,
    guard: bool,
    th: Thresholds,
    timeout: u64,
    last: Option<usize>,
) {
    let c = cfg(mode, quality, guard, th, timeout);
    let mut v: Vec<SrtlaConnection> = links.to_vec();
    let usable: Vec<bool> = v.iter().map(|l| oracle_usable(l, NOW, timeout)).collect();
    let r = select_connection_idx(&mut v, last, NOW, &c);
    acc.calls.fetch_add(1, Ordering::Relaxed);
    let any_usable = usable.iter().any(|u| *u);
    if any_usable {
        acc.with_usable.fetch_add(1, Ordering::Relaxed);
    }
    if r.is_none() {
        acc.none_results.fetch_add(1, Ordering::Relaxed);
    }
    // distinct (usable pattern, gate pattern after the call, result) outcomes
    let gates: Vec<(bool, bool, bool)> = v
        .iter()
        .map(|l| (l.is_stall_gated(), l.weak || l.loss_degraded, l.connected))
        .collect();
    local.push(hash_of(&(&usable, &gates, r, mode.is_classic(), guard)));
    let bad_index = r.is_some_and(|i| i >= v.len());
    if acc.c04 {
        // C04, selector clause: whatever it returns is registered, not timed out, not stall-gated
        if let Some(i) = r.filter(|i| *i < v.len()) {
            let why = if matches!(v[i].phase, srtla_core::connection::LinkPhase::Registering) {
                Some("selector-returned-registering-link")
            } else if oracle_timed_out(&links[i], NOW, timeout) {
                Some("selector-returned-timed-out-link")
            } else if v[i].is_stall_gated() {
                Some("selector-returned-stall-gated-link")
            } else {
                None
            };
            if let Some(key) = why {
                let msg = format!(
                    "select_connection_idx returned link {i}, which is not eligible; mode={mode:?} quality={quality} guard={guard} thresholds={th:?} timeout={timeout} last={last:?}; links: {}",
                    specs.iter().map(|s| describe(s)).collect::<Vec<_>>().join(" | ")
                );
                *acc.fail_n.lock().unwrap().entry(key.to_string()).or_insert(0) += 1;
                let mut f = acc.fails.lock().unwrap();
                if f.iter().filter(|x| x.key == key).count() < 3 {
                    f.push(Violation {
                        key: key.to_string(),
                        message: msg,
                        replay: json!({
                            "exploration": "selector-product",
                            "specs": specs.iter().map(|s| spec_to_json(s)).collect::<Vec<_>>(),
                            "mode": if mode.is_classic() { "classic" } else { "enhanced" },
                            "quality": quality, "guard": guard,
                            "min_in_flight": th.min_in_flight, "ceiling_ms": th.ceiling_ms.to_string(),
                            "timeout": timeout, "last": last,
                        }),
                    });
                }
            }
        }
        if local.len() > 8192 {
            let mut d = acc.distinct.lock().unwrap();
            d.extend(local.drain(..));
        }
        return;
    }
    if (any_usable && r.is_none()) || bad_index {
        // classify: which kind of link let the guards exclude the usable one
        let disconnected_schedulable_other = v.iter().enumerate().any(|(i, l)| {
            !usable[i] && !l.connected && l.is_schedulable() && !oracle_timed_out(l, NOW, timeout)
        });
        let key = if bad_index {
            "index-out-of-range"
        } else if disconnected_schedulable_other {
            "blackout:disconnected-schedulable-link-counted-as-healthy"
        } else {
            "blackout"
        };
        let msg = format!(
            "select_connection_idx returned {r:?} with usable links {usable:?}; mode={mode:?} quality={quality} guard={guard} thresholds={th:?} timeout={timeout} last={last:?}; links: {}",
            specs.iter().map(|s| describe(s)).collect::<Vec<_>>().join(" | ")
        );
        *acc.fail_n.lock().unwrap().entry(key.to_string()).or_insert(0) += 1;
        let mut f = acc.fails.lock().unwrap();
        if f.iter().filter(|x| x.key == key).count() < 3 {
            f.push(Violation {
                key: key.to_string(),
                message: msg,
                replay: json!({
                    "specs": specs.iter().map(|s| spec_to_json(s)).collect::<Vec<_>>(),
                    "mode": if mode.is_classic() { "classic" } else { "enhanced" },
                    "quality": quality, "guard": guard,
                    "min_in_flight": th.min_in_flight, "ceiling_ms": th.ceiling_ms.to_string(),
                    "timeout": timeout, "last": last,
                }),
            });
        }
    }
    if local.len() > 8192 {
        let mut d = acc.distinct.lock().unwrap();
        d.extend(local.drain(..));
    }
}

pub fn spec_to_json(s: &Spec) -> Value {
    json!({
        "life": format!("{:?}", s.life), "rx": format!("{:?}", s.rx), "load": format!("{:?}", s.load),
        "queued": s.queued, "window": s.window, "stall": format!("{:?}", s.stall),
        "gate": format!("{:?}", s.gate), "cc": format!("{:?}", s.cc), "nak": format!("{:?}", s.nak),
        "rtt": s.rtt, "age": s.age,
    })
}

pub fn spec_from_json(v: &Value) -> Option<Spec> {
    fn pick<T: Copy + std::fmt::Debug>(all: &[T], name: &str) -> Option<T> {
        all.iter().copied().find(|x| format!("{x:?}") == name)
    }
    Some(Spec {
        life: pick(&LIFE_ALL, v["life"].as_str()?)?,
        rx: pick(&RX_ALL, v["rx"].as_str()?)?,
        load: pick(&LOAD_ALL, v["load"].as_str()?)?,
        queued: v["queued"].as_u64()? as u8,
        window: v["window"].as_i64()? as i32,
        stall: pick(&STALL_ALL, v["stall"].as_str()?)?,
        gate: pick(&GATE_ALL, v["gate"].as_str()?)?,
        cc: pick(&CC_ALL, v["cc"].as_str()?)?,
        nak: pick(&NAK_ALL, v["nak"].as_str()?)?,
        rtt: v["rtt"].as_u64()? as u32,
        age: v["age"].as_u64()?,
    })
}

fn inner_configs(quick: bool) -> Vec<(SchedulingMode, bool, bool)> {
    let mut v = Vec::new();
    for mode in [SchedulingMode::Classic, SchedulingMode::Enhanced] {
        for quality in [true, false] {
            if quick && mode.is_classic() && !quality {
                continue; // quality is ignored in classic mode
            }
            for guard in [true, false] {
                v.push((mode, quality, guard));
            }
        }
    }
    v
}

fn lasts(n: usize) -> Vec<Option<usize>> {
    let mut v = vec![None];
    for i in 0..n {
        v.push(Some(i));
    }
    v.push(Some(n + 3));
    v
}

pub fn sweep(acc: &Acc, n: usize, lib: &[Spec], quick: bool) -> u64 {
    let ths: Vec<Thresholds> = THRESHOLDS.to_vec();
    let tos: Vec<u64> = if quick { vec![5000, 1000] } else { TIMEOUTS.to_vec() };
    let inner = inner_configs(quick);
    let outer: Vec<(Thresholds, u64)> = ths.iter().flat_map(|t| tos.iter().map(move |o| (*t, *o))).collect();
    let m = lib.len();
    let combos = (m as u64).pow(n as u32);
    // parallelise over (outer config, first link spec)
    let jobs = outer.len() * m;
    par_map(jobs, 16, |j| {
        let (th, timeout) = outer[j / m];
        let first = j % m;
        crate::util::set_now(NOW);
        let rtts = RttLib::new(NOW);
        let built: Vec<SrtlaConnection> = if n > 1 {
            lib.iter().map(|s| build(0, s, th, timeout, NOW, &rtts)).collect()
        } else {
            Vec::new()
        };
        let mut local = Vec::new();
        let mut idx = vec![0usize; n];
        idx[0] = first;
        loop {
            let specs: Vec<&Spec> = idx.iter().map(|i| &lib[*i]).collect();
            let links: Vec<SrtlaConnection> = if n == 1 {
                vec![build(0, &lib[first], th, timeout, NOW, &rtts)]
            } else {
                idx.iter()
                    .enumerate()
                    .map(|(pos, i)| {
                        let mut c = built[*i].clone();
                        c.conn_id = 1000 + pos as u64;
                        c
                    })
                    .collect()
            };
            for (mode, quality, guard) in &inner {
                for last in lasts(n) {
                    one_call(acc, &mut local, &specs, &links, *mode, *quality, *guard, th, timeout, last);
                }
            }
            // advance idx[1..]
            let mut d = 1;
            loop {
                if d >= n {
                    break;
                }
                idx[d] += 1;
                if idx[d] < m {
                    break;
                }
                idx[d] = 0;
                d += 1;
            }
            if d >= n {
                break;
            }
        }
        acc.distinct.lock().unwrap().extend(local.drain(..));
    });
    combos * outer.len() as u64
}

pub fn run(tier: Tier) -> Report {
    let mut rep = Report::new();
    let acc = Acc {
        c04: false,
        calls: AtomicU64::new(0),
        with_usable: AtomicU64::new(0),
        none_results: AtomicU64::new(0),
        distinct: Mutex::new(Default::default()),
        fails: Mutex::new(Vec::new()),
        fail_n: Mutex::new(Default::default()),
    };
    let q = tier.is_quick();
    let mut sweeps = Vec::new();
    let full = lib_full();
    let l576 = lib_576();
    let l40 = lib_arch(&[Life::Live, Life::Warming, Life::LiveDisconnected, Life::RegisteringAfterReset, Life::NeverEstablishedInGrace]);
    let l24 = lib_arch(&[Life::Live, Life::LiveDisconnected, Life::RegisteringAfterReset]);
    let t = std::time::Instant::now();
    let c1 = sweep(&acc, 1, &full, q);
    sweeps.push(json!({"links": 1, "library": "Full", "per_link_states": full.len(), "state_x_outer_config": c1, "wall_s": t.elapsed().as_secs_f64()}));
    let t = std::time::Instant::now();
    if q {
        let l288: Vec<Spec> = l576
            .iter()
            .copied()
            .filter(|s| matches!(s.life, Life::Live | Life::Warming | Life::LiveDisconnected | Life::RegisteringAfterReset))
            .collect();
        let c2 = sweep(&acc, 2, &l288, q);
        sweeps.push(json!({"links": 2, "library": "Lib288^2 (Lib576 restricted to 4 lifecycle values)", "per_link_states": l288.len(), "state_x_outer_config": c2, "wall_s": t.elapsed().as_secs_f64()}));
        let t = std::time::Instant::now();
        let c3 = sweep(&acc, 3, &l24, q);
        sweeps.push(json!({"links": 3, "library": "Lib24^3", "per_link_states": l24.len(), "state_x_outer_config": c3, "wall_s": t.elapsed().as_secs_f64()}));
    } else {
        let c2 = sweep(&acc, 2, &l576, q);
        sweeps.push(json!({"links": 2, "library": "Lib576^2", "per_link_states": l576.len(), "state_x_outer_config": c2, "wall_s": t.elapsed().as_secs_f64()}));
        let t = std::time::Instant::now();
        let c3 = sweep(&acc, 3, &l40, q);
        sweeps.push(json!({"links": 3, "library": "Lib40^3", "per_link_states": l40.len(), "state_x_outer_config": c3, "wall_s": t.elapsed().as_secs_f64()}));
        let t = std::time::Instant::now();
        let c4 = sweep(&acc, 4, &l24, q);
        sweeps.push(json!({"links": 4, "library": "Lib24^4", "per_link_states": l24.len(), "state_x_outer_config": c4, "wall_s": t.elapsed().as_secs_f64()}));
    }
    let calls = acc.calls.load(Ordering::Relaxed);
    rep.states = acc.distinct.lock().unwrap().len() as u64;
    rep.transitions = calls;
    rep.traces = calls;
    rep.set("sweeps", json!(sweeps));
    rep.set("selector_calls", json!(calls));
    rep.set("calls_with_a_usable_link", json!(acc.with_usable.load(Ordering::Relaxed)));
    rep.set("calls_returning_none", json!(acc.none_results.load(Ordering::Relaxed)));
    rep.set("attribute_domains", json!({
        "life": LIFE_ALL.iter().map(|x| format!("{x:?}")).collect::<Vec<_>>(),
        "receive_age": RX_ALL.iter().map(|x| format!("{x:?}")).collect::<Vec<_>>(),
        "load": "in-flight {0, min-1, min, 50000} x queued {0, 5}",
        "window": [1000, 20000, 60000],
        "stall_history": STALL_ALL.iter().map(|x| format!("{x:?}")).collect::<Vec<_>>(),
        "quality_gate": GATE_ALL.iter().map(|x| format!("{x:?}")).collect::<Vec<_>>(),
        "cc": CC_3.iter().map(|x| format!("{x:?}")).collect::<Vec<_>>(),
        "nak": NAK_3.iter().map(|x| format!("{x:?}")).collect::<Vec<_>>(),
        "configurations": "mode {classic, enhanced} x quality {on, off} x guard {on, off} x (min in-flight, ceiling) {(32,3000),(1,500),(0,0),(i32::MAX,u64::MAX)} x timeout {1000,5000,60000} x previous index {None, each link, out of range}",
    }));
    rep.samples.push(json!({"links": [spec_to_json(&l40[1]), spec_to_json(&l40[8 + 3])], "config": "enhanced, quality on, guard on, (32,3000), timeout 5000, last None"}));
    rep.set("oracle", json!("usable(l) := phase != Registering and connected and not timed out (harness's own time-out rule on raw fields); exists usable link => select_connection_idx returns Some(index in range)"));
    rep.assume("stall latch / silence-pull histories are produced by running the real selector on the link over a scripted earlier timeline; all other attributes are selector inputs set through the test-internals public fields");
    rep.assume("n = 1 uses the full per-link product; n = 2..4 use the stated sub-libraries (full products are infeasible: 124416^2)");
    for v in acc.fails.lock().unwrap().drain(..) {
        rep.violations.push(v);
    }
    for (k, n) in acc.fail_n.lock().unwrap().iter() {
        rep.count_violation(k, *n);
    }
    rep
}

pub fn replay(v: &Value) -> Result<(), String> {
    let specs: Vec<Spec> = v["specs"]
        .as_array()
        .ok_or("MACHINERY: no specs")?
        .iter()
        .map(|s| spec_from_json(s).ok_or("MACHINERY: bad spec"))
        .collect::<Result<_, _>>()?;
    let mode = if v["mode"] == "classic" { SchedulingMode::Classic } else { SchedulingMode::Enhanced };
    let th = Thresholds {
        min_in_flight: v["min_in_flight"].as_i64().unwrap_or(32) as i32,
        ceiling_ms: v["ceiling_ms"].as_str().and_then(|s| s.parse().ok()).unwrap_or(3000),
    };
    let timeout = v["timeout"].as_u64().unwrap_or(5000);
    let last = v["last"].as_u64().map(|x| x as usize);
    crate::util::set_now(NOW);
    let rtts = RttLib::new(NOW);
    let mut links: Vec<SrtlaConnection> = specs.iter().enumerate().map(|(i, s)| build(i, s, th, timeout, NOW, &rtts)).collect();
    let usable: Vec<bool> = links.iter().map(|l| oracle_usable(l, NOW, timeout)).collect();
    let c = cfg(mode, v["quality"].as_bool().unwrap_or(true), v["guard"].as_bool().unwrap_or(true), th, timeout);
    let r = select_connection_idx(&mut links, last, NOW, &c);
    if usable.iter().any(|u| *u) && r.is_none() {
        return Err(format!("select_connection_idx returned None with usable links {usable:?}"));
    }
    if r.is_some_and(|i| i >= links.len()) {
        return Err(format!("index {r:?} out of range"));
    }
    Ok(())
}

/// C04's selector clause over the same products (used by c04.rs).
pub fn selector_eligibility_product(quick: bool) -> (u64, u64, Vec<Violation>, std::collections::BTreeMap<String, u64>, Vec<Value>) {
    let acc = Acc {
        c04: true,
        calls: AtomicU64::new(0),
        with_usable: AtomicU64::new(0),
        none_results: AtomicU64::new(0),
        distinct: Mutex::new(Default::default()),
        fails: Mutex::new(Vec::new()),
        fail_n: Mutex::new(Default::default()),
    };
    let l576 = lib_576();
    let l288: Vec<Spec> = l576
        .iter()
        .copied()
        .filter(|s| matches!(s.life, Life::Live | Life::Warming | Life::LiveDisconnected | Life::RegisteringAfterReset))
        .collect();
    let l40 = lib_arch(&[Life::Live, Life::Warming, Life::LiveDisconnected, Life::RegisteringAfterReset, Life::NeverEstablishedInGrace]);
    let l24 = lib_arch(&[Life::Live, Life::LiveDisconnected, Life::RegisteringAfterReset]);
    let mut sweeps = Vec::new();
    let mut run = |n: usize, lib: &[Spec], name: &str| {
        let t = std::time::Instant::now();
        let before = acc.calls.load(Ordering::Relaxed);
        sweep(&acc, n, lib, quick);
        sweeps.push(json!({"links": n, "library": name, "per_link_states": lib.len(), "selector_calls": acc.calls.load(Ordering::Relaxed) - before, "wall_s": t.elapsed().as_secs_f64()}));
    };
    if quick {
        run(2, &l288, "Lib288^2");
        run(3, &l24, "Lib24^3");
    } else {
        run(2, &l576, "Lib576^2");
        run(3, &l40, "Lib40^3");
        run(4, &l24, "Lib24^4");
    }
    let calls = acc.calls.load(Ordering::Relaxed);
    let distinct = acc.distinct.lock().unwrap().len() as u64;
    let fails: Vec<Violation> = acc.fails.lock().unwrap().drain(..).collect();
    let counts = acc.fail_n.lock().unwrap().clone();
    (calls, distinct, fails, counts, sweeps)
}

pub fn replay_eligibility(v: &Value) -> Result<(), String> {
    let specs: Vec<Spec> = v["specs"]
        .as_array()
        .ok_or("MACHINERY: no specs")?
        .iter()
        .map(|s| spec_from_json(s).ok_or("MACHINERY: bad spec"))
        .collect::<Result<_, _>>()?;
    let mode = if v["mode"] == "classic" { SchedulingMode::Classic } else { SchedulingMode::Enhanced };
    let th = Thresholds {
        min_in_flight: v["min_in_flight"].as_i64().unwrap_or(32) as i32,
        ceiling_ms: v["ceiling_ms"].as_str().and_then(|s| s.parse().ok()).unwrap_or(3000),
    };
    let timeout = v["timeout"].as_u64().unwrap_or(5000);
    let last = v["last"].as_u64().map(|x| x as usize);
    crate::util::set_now(NOW);
    let rtts = RttLib::new(NOW);
    let pre: Vec<SrtlaConnection> = specs.iter().enumerate().map(|(i, s)| build(i, s, th, timeout, NOW, &rtts)).collect();
    let mut links = pre.clone();
    let c = cfg(mode, v["quality"].as_bool().unwrap_or(true), v["guard"].as_bool().unwrap_or(true), th, timeout);
    let r = select_connection_idx(&mut links, last, NOW, &c);
    if let Some(i) = r.filter(|i| *i < links.len()) {
        if matches!(links[i].phase, srtla_core::connection::LinkPhase::Registering) || oracle_timed_out(&pre[i], NOW, timeout) || links[i].is_stall_gated() {
            return Err(format!("select_connection_idx returned link {i}, which is registering / timed out / stall-gated"));
        }
    }
    Ok(())
}
