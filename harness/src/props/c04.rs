//! C04 — stream data is only ever routed onto eligible uplinks.
//! World + history exploration (the priority override reads a cached quality
//! value whose content depends on the past), oracle in `stream.rs`.

use std::sync::Arc;
use std::time::Duration;

use serde_json::{Value, json};

use super::stream::*;
use crate::engine::{self, Limits, Model, Plan};
use crate::evidence::{Report, Tier};
use crate::world::glue_fingerprint;

fn alphabet(n: usize, reduced: bool) -> Vec<SEv> {
    let mut v = vec![SEv::Cdata, SEv::Crtx, SEv::Crit(500), SEv::UnakSingle(0), SEv::Thk(1000), SEv::Adv(1000), SEv::Uka(1), SEv::Tflush];
    if !reduced {
        v.extend([SEv::Cctl, SEv::UsrtAck(0), SEv::Uerr(1), SEv::Ureg3(1), SEv::Adv(5000), SEv::CfgStall, SEv::CfgMode, SEv::CfgQuality, SEv::Uka(0)]);
        if n > 2 {
            v.push(SEv::Uka(2));
        }
    }
    v
}

fn inits(all: bool) -> Vec<(String, InitKind)> {
    let mut v = vec![
        ("S2 live".to_string(), InitKind::Live { classic: false }),
        ("S4 link 1 stall-latched and gated".to_string(), InitKind::Latched { link: 1 }),
        ("S4 link 0 stall-latched and gated".to_string(), InitKind::Latched { link: 0 }),
        ("S4' link 0 gated by the silence pull only (not latched)".to_string(), InitKind::Pulled { link: 0 }),
        ("S5 link 0 timed out, awaiting back-off".to_string(), InitKind::TimedOut { link: 0, classic: false }),
        ("S6 link 0 after REG_ERR".to_string(), InitKind::AfterRegErr { link: 0, classic: false }),
    ];
    if all {
        v.push(("S3 streaming".to_string(), InitKind::Streaming { classic: false }));
        v.push(("S3 streaming, quality off".to_string(), InitKind::StreamingNoQuality));
        v.push(("S3 streaming, classic".to_string(), InitKind::Streaming { classic: true }));
        v.push(("S5 link 0 timed out, classic".to_string(), InitKind::TimedOut { link: 0, classic: true }));
        v.push(("S6 link 0 after REG_ERR, classic".to_string(), InitKind::AfterRegErr { link: 0, classic: true }));
    }
    v
}

fn models(tier: Tier) -> Vec<(String, Arc<StreamModel>, Vec<Plan>)> {
    let or = Oracles { c01: false, c03: true, c04: true, c10: false, c05: false };
    let mk = |name: &str, n: usize, reduced: bool, all: bool| {
        Arc::new(StreamModel { name: name.to_string(), n, events: alphabet(n, reduced), inits: inits(all), or })
    };
    let mut out = Vec::new();
    if tier.is_quick() {
        let m = mk("links=2 reduced alphabet", 2, true, false);
        out.push((m.name.clone(), m, vec![Plan::Full { depth: 5 }]));
        let m = mk("links=2 full alphabet", 2, false, true);
        out.push((m.name.clone(), m, vec![Plan::Full { depth: 4 }]));
        let m = mk("links=3 reduced alphabet", 3, true, false);
        out.push((m.name.clone(), m, vec![Plan::Full { depth: 4 }]));
    } else {
        let m = mk("links=2 reduced alphabet", 2, true, true);
        out.push((m.name.clone(), m, vec![Plan::Full { depth: 6 }]));
        let m = mk("links=2 full alphabet", 2, false, true);
        out.push((
            m.name.clone(),
            m,
            vec![Plan::Full { depth: 4 }, Plan::Dev { k: 2, depth: 60, default: Arc::new(|p| if p % 10 == 9 { 4 } else { 0 }) }],
        ));
        let m = mk("links=3 full alphabet", 3, false, false);
        out.push((m.name.clone(), m, vec![Plan::Full { depth: 4 }]));
    }
    out
}

pub fn run(tier: Tier) -> Report {
    let mut rep = Report::new();
    if let Err(e) = glue_fingerprint() {
        rep.machinery_errors.push(e);
        return rep;
    }
    let lim = Limits {
        wall: Duration::from_secs(if tier.is_quick() { 40 } else { 2400 }),
        ..Default::default()
    };
    for (label, m, plans) in models(tier) {
        for plan in plans {
            let ex = engine::explore(&*m, &plan, &lim);
            engine::fold(&mut rep, &*m, &format!("{label} {}", plan.describe()), &plan, ex);
        }
        rep.set(
            &format!("alphabet[{label}]"),
            json!((0..m.n_events()).map(|e| m.event_name(e)).collect::<Vec<_>>()),
        );
        rep.set(&format!("inits[{label}]"), json!(m.inits.iter().map(|i| i.0.clone()).collect::<Vec<_>>()));
    }
    // selector clause over the link-state products (the selector alone, every previous index)
    let (calls, distinct, fails, counts, sweeps) = super::c03::selector_eligibility_product(tier.is_quick());
    rep.transitions += calls;
    rep.traces += calls;
    rep.states += distinct;
    rep.set("selector_product", json!({"selector_calls": calls, "sweeps": sweeps}));
    for v in fails {
        rep.violations.push(v);
    }
    for (k, n) in counts {
        rep.count_violation(&k, n);
    }
    rep.set("oracle", json!("selector product: whatever select_connection_idx returns (any previous index, both modes, every configuration) is not registering, not timed out (own rule) and not stall-gated after the call. World: for every accepted client datagram after the session is established, the link that received the unique copy (last_selected_idx, confirmed by queue growth / wire) must, at that instant, have phase != Registering (pre-call), not be timed out (harness's own rule with the configured timeout, pre-call fields) and not be stall-gated (flag as recomputed by the real selector in that very call); also: never dropped while a usable link exists"));
    rep.assume("pre-establishment forwarding (before the first REG3) is outside the statement and not judged");
    rep.assume("the select! glue is mirrored (world.rs) and bound by a call-order + token digest fingerprint");
    rep
}

pub fn replay(v: &Value) -> Result<(), String> {
    if v["exploration"] == "selector-product" {
        return super::c03::replay_eligibility(v);
    }
    let mut ms = Vec::new();
    for tier in [Tier::Quick, Tier::Thorough] {
        for (l, m, _) in models(tier) {
            ms.push((l, m));
        }
    }
    engine::replay_json(&ms, v)
}
