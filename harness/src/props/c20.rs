//! C20 — telemetry subscriptions never block the data plane and stay ordered.
//!
//! Schedule exploration (schedx, futures back-end) of the real
//! `SubscriptionHub`: concurrent subscribe / unsubscribe / publish tasks and
//! subscriber-side receive / close, every schedule up to a preemption bound,
//! run to completion, judged on the recorded call/return/receive history.

use std::cell::RefCell;
use std::collections::{BTreeMap, BTreeSet};
use std::rc::Rc;

use serde_json::{Value, json};
use srtla_send::subscriptions::SubscriptionHub;
use tokio::sync::mpsc;

use crate::engine::par_map;
use crate::evidence::{Report, Tier, Violation};
use crate::sched::{Execution, Task, explore_schedules, run_futures};

#[derive(Clone, Debug)]
#[allow(dead_code)]
enum Obs {
    /// (subscriber, topic, id returned)
    Subscribed(usize, String, String),
    /// unsubscribe(id) invoked / returned
    UnsubInvoked(String),
    UnsubReturned(String, bool),
    /// publish(topic, value) invoked / returned
    PubInvoked(String, i64),
    PubReturned(String, i64),
    /// subscriber received a line
    Recv(usize, String),
    /// subscriber dropped its receiver
    Closed(usize),
    /// hub.len() observed by a task after some point
    Len(usize, usize),
    /// subscriber is about to wait for a line (a subscriber left waiting here when
    /// everybody else has finished is an idle client, not a blocked hub operation)
    RecvWait(usize),
    /// found in the channel of a subscriber at the end of the execution although it had emptied
    /// the channel right after its unsubscribe returned: delivered after the unsubscribe completed
    LateLine(usize, String),
}

type Log = Rc<RefCell<Vec<Obs>>>;

#[derive(Clone, Copy, Debug)]
pub struct Config {
    /// 1..=5 as in DESIGN.md, 6 = H1 with frozen subscribers, 7 = H2 frozen
    h: u8,
    cap: usize,
}

struct Built {
    tasks: Vec<Task>,
    log: Log,
    /// receivers parked here by subscribers that never read ("frozen")
    _parked: Rc<RefCell<Vec<(usize, bool, mpsc::Receiver<String>)>>>,
    hub: SubscriptionHub,
}

fn subscriber(
    hub: SubscriptionHub,
    log: Log,
    me: usize,
    topic: &'static str,
    cap: usize,
    recvs: usize,
    then_unsub: bool,
    then_close: bool,
    frozen: bool,
    parked: Rc<RefCell<Vec<(usize, bool, mpsc::Receiver<String>)>>>,
) -> Task {
    Box::pin(async move {
        let (tx, mut rx) = mpsc::channel::<String>(cap);
        let id = hub.subscribe(topic, tx).await;
        log.borrow_mut().push(Obs::Subscribed(me, topic.to_string(), id.clone()));
        if frozen {
            // arbitrarily slow client: keeps its connection open, never reads
            parked.borrow_mut().push((me, false, rx));
            return;
        }
        for _ in 0..recvs {
            log.borrow_mut().push(Obs::RecvWait(me));
            match rx.recv().await {
                Some(line) => log.borrow_mut().push(Obs::Recv(me, line)),
                None => break,
            }
        }
        if then_unsub {
            log.borrow_mut().push(Obs::UnsubInvoked(id.clone()));
            let r = hub.unsubscribe(&id).await;
            log.borrow_mut().push(Obs::UnsubReturned(id.clone(), r));
            // whatever was already queued may still be read; nothing new may arrive
            while let Ok(line) = rx.try_recv() {
                log.borrow_mut().push(Obs::Recv(me, line));
            }
            parked.borrow_mut().push((me, true, rx));
        } else if then_close {
            drop(rx);
            log.borrow_mut().push(Obs::Closed(me));
        } else {
            parked.borrow_mut().push((me, false, rx));
        }
    })
}

/// A control client speaking the protocol: subscribe and unsubscribe go through the real `dispatch_async`
/// (the unsubscribe as a request or, `notification`, without an id), pushes are read from the connection's
/// push channel.
fn subscriber_via_dispatch(
    hub: SubscriptionHub,
    log: Log,
    me: usize,
    cap: usize,
    recvs: usize,
    notification: bool,
    parked: Rc<RefCell<Vec<(usize, bool, mpsc::Receiver<String>)>>>,
) -> Task {
    use srtla_send::config::DynamicConfig;
    use srtla_send::control::{SubscriptionContext, dispatch_async};
    Box::pin(async move {
        let cfg = DynamicConfig::new();
        let (tx, mut rx) = mpsc::channel::<String>(cap);
        let mut owned: Vec<String> = Vec::new();
        let resp = {
            let mut ctx = SubscriptionContext { hub: &hub, push_tx: tx.clone(), owned_ids: &mut owned };
            dispatch_async(&cfg, None, None, Some(&mut ctx), r#"{"jsonrpc":"2.0","id":1,"method":"subscribe","params":{"topic":"stats"}}"#).await
        };
        let id = resp
            .map(|r| r.to_json())
            .and_then(|t| serde_json::from_str::<Value>(&t).ok())
            .and_then(|v| v["result"]["subscription_id"].as_str().map(|x| x.to_string()))
            .unwrap_or_default();
        log.borrow_mut().push(Obs::Subscribed(me, "stats".to_string(), id.clone()));
        for _ in 0..recvs {
            log.borrow_mut().push(Obs::RecvWait(me));
            match rx.recv().await {
                Some(line) => log.borrow_mut().push(Obs::Recv(me, line)),
                None => break,
            }
        }
        log.borrow_mut().push(Obs::UnsubInvoked(id.clone()));
        let line = if notification {
            format!(r#"{{"jsonrpc":"2.0","method":"unsubscribe","params":{{"subscription_id":"{id}"}}}}"#)
        } else {
            format!(r#"{{"jsonrpc":"2.0","id":2,"method":"unsubscribe","params":{{"subscription_id":"{id}"}}}}"#)
        };
        {
            let mut ctx = SubscriptionContext { hub: &hub, push_tx: tx.clone(), owned_ids: &mut owned };
            let _ = dispatch_async(&cfg, None, None, Some(&mut ctx), &line).await;
        }
        log.borrow_mut().push(Obs::UnsubReturned(id.clone(), true));
        while let Ok(line) = rx.try_recv() {
            log.borrow_mut().push(Obs::Recv(me, line));
        }
        parked.borrow_mut().push((me, true, rx));
        drop(tx);
    })
}

fn publisher(hub: SubscriptionHub, log: Log, topic: &'static str, values: Vec<i64>, then_len: Option<usize>) -> Task {
    Box::pin(async move {
        for v in values {
            log.borrow_mut().push(Obs::PubInvoked(topic.to_string(), v));
            hub.publish(topic, json!(v)).await;
            log.borrow_mut().push(Obs::PubReturned(topic.to_string(), v));
        }
        if let Some(me) = then_len {
            let n = hub.len().await;
            log.borrow_mut().push(Obs::Len(me, n));
        }
    })
}

fn build(c: Config) -> Built {
    let hub = SubscriptionHub::new();
    let log: Log = Default::default();
    let parked: Rc<RefCell<Vec<(usize, bool, mpsc::Receiver<String>)>>> = Default::default();
    let h = hub.clone();
    let tasks: Vec<Task> = match c.h {
        // H1: subscriber {subscribe, recv x2, unsubscribe} || publisher {1,2,3}
        1 => vec![
            subscriber(h.clone(), log.clone(), 0, "stats", c.cap, 2, true, false, false, parked.clone()),
            publisher(h.clone(), log.clone(), "stats", vec![1, 2, 3], None),
        ],
        // H2: two publishers || two subscribers (one permanently full)
        2 => vec![
            publisher(h.clone(), log.clone(), "stats", vec![1, 2], None),
            publisher(h.clone(), log.clone(), "stats", vec![3, 4], None),
            subscriber(h.clone(), log.clone(), 0, "stats", c.cap, 3, false, false, false, parked.clone()),
            subscriber(h.clone(), log.clone(), 1, "stats", c.cap, 0, false, false, true, parked.clone()),
        ],
        // H3: subscriber closes || publisher x2 (then len) || late subscriber
        3 => vec![
            subscriber(h.clone(), log.clone(), 0, "stats", c.cap, 1, false, true, false, parked.clone()),
            publisher(h.clone(), log.clone(), "stats", vec![1, 2, 3], Some(9)),
            subscriber(h.clone(), log.clone(), 1, "stats", c.cap, 1, false, false, false, parked.clone()),
        ],
        // H4: two topics, subscribe || subscribe || publish on both (id uniqueness, topic filtering)
        4 => vec![
            subscriber(h.clone(), log.clone(), 0, "stats", c.cap, 1, true, false, false, parked.clone()),
            subscriber(h.clone(), log.clone(), 1, "priority.window", c.cap, 1, false, false, false, parked.clone()),
            publisher(h.clone(), log.clone(), "stats", vec![1, 2], None),
            publisher(h.clone(), log.clone(), "priority.window", vec![7], None),
        ],
        // H5: four tasks mixing all operations
        5 => vec![
            subscriber(h.clone(), log.clone(), 0, "stats", c.cap, 1, true, false, false, parked.clone()),
            subscriber(h.clone(), log.clone(), 1, "stats", c.cap, 1, false, true, false, parked.clone()),
            publisher(h.clone(), log.clone(), "stats", vec![1, 2], Some(8)),
            publisher(h.clone(), log.clone(), "stats", vec![3], None),
        ],
        // H6: frozen subscribers (never scheduled again after subscribing): publishers must still finish
        6 => vec![
            subscriber(h.clone(), log.clone(), 0, "stats", c.cap, 0, false, false, true, parked.clone()),
            subscriber(h.clone(), log.clone(), 1, "stats", c.cap, 0, false, false, true, parked.clone()),
            publisher(h.clone(), log.clone(), "stats", vec![1, 2, 3], None),
            publisher(h.clone(), log.clone(), "stats", vec![4, 5], None),
        ],
        // H8: two reading subscribers || two single-shot publishers (agreement on the publication order)
        8 => vec![
            subscriber(h.clone(), log.clone(), 0, "stats", c.cap.max(2), 2, false, false, false, parked.clone()),
            subscriber(h.clone(), log.clone(), 1, "stats", c.cap.max(2), 2, true, false, false, parked.clone()),
            publisher(h.clone(), log.clone(), "stats", vec![1], None),
            publisher(h.clone(), log.clone(), "stats", vec![2], None),
        ],
        // H10 / H11: a protocol client (subscribe / unsubscribe through the real dispatcher; the unsubscribe as a
        // request, or as a notification without an id) || publisher
        10 | 11 => vec![
            subscriber_via_dispatch(h.clone(), log.clone(), 0, c.cap.max(2), 1, c.h == 11, parked.clone()),
            publisher(h.clone(), log.clone(), "stats", vec![1, 2, 3], None),
        ],
        // H9: a frozen subscriber of the *other* topic: its publisher and the stats publisher must still finish
        9 => vec![
            subscriber(h.clone(), log.clone(), 0, "priority.window", c.cap, 0, false, false, true, parked.clone()),
            subscriber(h.clone(), log.clone(), 1, "stats", c.cap, 1, false, false, false, parked.clone()),
            publisher(h.clone(), log.clone(), "priority.window", vec![1, 2, 3], None),
            publisher(h.clone(), log.clone(), "stats", vec![4, 5], None),
        ],
        _ => vec![
            subscriber(h.clone(), log.clone(), 0, "stats", c.cap, 0, false, false, true, parked.clone()),
            publisher(h.clone(), log.clone(), "stats", vec![1, 2, 3, 4], None),
            subscriber(h.clone(), log.clone(), 1, "stats", c.cap, 1, true, false, false, parked.clone()),
        ],
    };
    Built { tasks, log, _parked: parked, hub }
}

fn publisher_lists(c: Config) -> Vec<(&'static str, Vec<i64>)> {
    match c.h {
        1 => vec![("stats", vec![1, 2, 3])],
        2 => vec![("stats", vec![1, 2]), ("stats", vec![3, 4])],
        3 => vec![("stats", vec![1, 2, 3])],
        4 => vec![("stats", vec![1, 2]), ("priority.window", vec![7])],
        5 => vec![("stats", vec![1, 2]), ("stats", vec![3])],
        6 => vec![("stats", vec![1, 2, 3]), ("stats", vec![4, 5])],
        8 => vec![("stats", vec![1]), ("stats", vec![2])],
        9 => vec![("priority.window", vec![1, 2, 3]), ("stats", vec![4, 5])],
        10 | 11 => vec![("stats", vec![1, 2, 3])],
        _ => vec![("stats", vec![1, 2, 3, 4])],
    }
}

/// The history of a finished execution, completed by what is still sitting in the channels of
/// subscribers that had unsubscribed (and emptied their channel right after unsubscribe returned).
fn final_log(log: &Log, parked: &Rc<RefCell<Vec<(usize, bool, mpsc::Receiver<String>)>>>) -> Vec<Obs> {
    let mut l = log.borrow().clone();
    for (me, unsubscribed, rx) in parked.borrow_mut().iter_mut() {
        if *unsubscribed {
            while let Ok(line) = rx.try_recv() {
                l.push(Obs::LateLine(*me, line));
            }
        }
    }
    l
}
fn c_pub_count(c: Config) -> usize {
    publisher_lists(c).len()
}
fn pub_finished(log: &[Obs], c: Config, p: usize) -> bool {
    let (topic, vals) = &publisher_lists(c)[p];
    vals.iter().all(|v| log.iter().any(|o| matches!(o, Obs::PubReturned(t, x) if t == topic && x == v)))
}

fn judge(c: Config, log: &[Obs], x: &Execution, hub_len_end: usize) -> Result<String, (String, String)> {
    let fail = |k: &str, m: String| Err((k.to_string(), format!("{m}\n history: {log:?}\n schedule (task ids): {:?}", x.schedule_ids())));
    // (1) non-blocking / deadlock freedom: every task ran to completion
    // a subscriber still waiting for a line when nobody publishes any more is just an idle client
    let idle_waiters: BTreeSet<usize> = {
        let mut w: BTreeSet<usize> = BTreeSet::new();
        for o in log {
            match o {
                Obs::RecvWait(me) => {
                    w.insert(*me);
                }
                Obs::Recv(me, _) => {
                    w.remove(me);
                }
                _ => {}
            }
        }
        w
    };
    let blocked: Option<Vec<usize>> = x.deadlock.as_ref().and_then(|left| {
        let n_idle = idle_waiters.len();
        if left.len() <= n_idle && (0..c_pub_count(c)).all(|p| pub_finished(log, c, p)) && left.len() == n_idle { None } else { Some(left.clone()) }
    });
    if let Some(left) = &blocked {
        return fail(
            "hub-operation-blocked",
            format!("tasks {left:?} can never finish: a hub operation is waiting on a subscriber / another task (harness H{}, capacity {})", c.h, c.cap),
        );
    }
    // ids returned by subscribe, per subscriber
    let mut ids: BTreeMap<String, (usize, String)> = BTreeMap::new();
    for o in log {
        if let Obs::Subscribed(me, topic, id) = o {
            if ids.insert(id.clone(), (*me, topic.clone())).is_some() {
                return fail("subscription-id-not-unique", format!("id {id} was handed out twice"));
            }
        }
    }
    // (4') nothing is put into a subscriber's channel after its unsubscribe has completed
    for o in log {
        if let Obs::LateLine(me, line) = o {
            return fail(
                "delivered-after-unsubscribe-completed",
                format!("subscriber {me} emptied its channel right after unsubscribe returned, yet at the end of the execution the channel holds {line}"),
            );
        }
    }
    // (2) + (3) + (4)
    let mut got: BTreeMap<String, Vec<i64>> = BTreeMap::new();
    for (pos, o) in log.iter().enumerate() {
        if let Obs::Recv(me, line) = o {
            let v: Value = match serde_json::from_str(line) {
                Ok(v) => v,
                Err(e) => return fail("pushed-line-not-json", format!("subscriber {me} received {line:?}: {e}")),
            };
            let id = v["params"]["subscription_id"].as_str().unwrap_or("").to_string();
            let Some((owner, topic)) = ids.get(&id) else {
                return fail("event-with-unknown-subscription-id", format!("subscriber {me} received {line}"));
            };
            if owner != me {
                return fail("event-delivered-to-wrong-subscriber", format!("subscriber {me} received an event tagged {id} which belongs to subscriber {owner}"));
            }
            if v["jsonrpc"] != "2.0" || v["method"].as_str() != Some(&format!("{topic}.update")) {
                return fail("event-of-wrong-topic-or-shape", format!("subscriber {me} (topic {topic}) received {line}"));
            }
            let Some(val) = v["params"]["data"].as_i64() else {
                return fail("event-data-mangled", format!("subscriber {me} received {line}"));
            };
            // the value was published on that topic, and its publish was invoked before this receive
            let invoked = log[..pos].iter().any(|p| matches!(p, Obs::PubInvoked(t, x) if t == topic && *x == val));
            if !invoked {
                return fail("event-never-published", format!("subscriber {me} received value {val} on {topic} that no publish had been invoked for"));
            }
            // (4) nothing from a publish invoked after unsubscribe(id) returned
            let unsub_ret = log.iter().position(|p| matches!(p, Obs::UnsubReturned(i, _) if *i == id));
            let pub_inv = log.iter().position(|p| matches!(p, Obs::PubInvoked(t, x) if t == topic && *x == val)).unwrap();
            if let Some(u) = unsub_ret {
                if pub_inv > u {
                    return fail("delivered-after-unsubscribe", format!("subscription {id}: value {val} was published after unsubscribe had returned, yet delivered"));
                }
            }
            let e = got.entry(id.clone()).or_default();
            if e.contains(&val) {
                return fail("event-delivered-twice", format!("subscription {id} received value {val} twice"));
            }
            e.push(val);
        }
    }
    // program order of each publisher's values, and agreement between subscriptions of one topic
    let mut publisher_order: Vec<Vec<i64>> = Vec::new();
    {
        // values of one publisher = a maximal chain PubInvoked(v) .. in this harness: known lists
        let lists: Vec<Vec<i64>> = match c.h {
            1 => vec![vec![1, 2, 3]],
            2 => vec![vec![1, 2], vec![3, 4]],
            3 => vec![vec![1, 2, 3]],
            4 => vec![vec![1, 2], vec![7]],
            5 => vec![vec![1, 2], vec![3]],
            6 => vec![vec![1, 2, 3], vec![4, 5]],
            8 => vec![vec![1], vec![2]],
            9 => vec![vec![1, 2, 3], vec![4, 5]],
            10 | 11 => vec![vec![1, 2, 3]],
            _ => vec![vec![1, 2, 3, 4]],
        };
        publisher_order.extend(lists);
    }
    for (id, vals) in &got {
        for list in &publisher_order {
            let seen: Vec<i64> = vals.iter().copied().filter(|v| list.contains(v)).collect();
            let mut sorted = seen.clone();
            sorted.sort_by_key(|v| list.iter().position(|x| x == v));
            if seen != sorted {
                return fail("publication-order-violated", format!("subscription {id} received {vals:?}; one publisher published {list:?} in that order"));
            }
        }
    }
    let idv: Vec<&String> = got.keys().collect();
    for a in 0..idv.len() {
        for b in (a + 1)..idv.len() {
            if ids[idv[a]].1 != ids[idv[b]].1 {
                continue;
            }
            let (va, vb) = (&got[idv[a]], &got[idv[b]]);
            let common_a: Vec<i64> = va.iter().copied().filter(|v| vb.contains(v)).collect();
            let common_b: Vec<i64> = vb.iter().copied().filter(|v| va.contains(v)).collect();
            if common_a != common_b {
                return fail("subscribers-disagree-on-order", format!("{} received {va:?}, {} received {vb:?}", idv[a], idv[b]));
            }
        }
    }
    // (5) closed subscribers are pruned: a publish on T invoked after S closed has returned => hub no longer counts S
    for (pos, o) in log.iter().enumerate() {
        if let Obs::Len(_, n) = o {
            // subscriptions that must be gone by now
            let mut must_gone: BTreeSet<String> = BTreeSet::new();
            let mut alive_max = 0usize;
            for (id, (owner, topic)) in &ids {
                let subscribed_at = log.iter().position(|p| matches!(p, Obs::Subscribed(_, _, i) if i == id)).unwrap();
                if subscribed_at > pos {
                    continue;
                }
                let closed_at = log.iter().position(|p| matches!(p, Obs::Closed(m) if m == owner));
                let unsub_at = log.iter().position(|p| matches!(p, Obs::UnsubReturned(i, _) if i == id));
                let pruned = closed_at.is_some_and(|cl| {
                    // some publish on its topic invoked after the close and returned before the len call
                    log.iter().enumerate().any(|(pi, p)| {
                        pi > cl
                            && pi < pos
                            && matches!(p, Obs::PubInvoked(t, _) if t == topic)
                            && log[pi..pos].iter().any(|q| matches!((p, q), (Obs::PubInvoked(t1, v1), Obs::PubReturned(t2, v2)) if t1 == t2 && v1 == v2))
                    })
                });
                if pruned || unsub_at.is_some_and(|u| u < pos) {
                    must_gone.insert(id.clone());
                } else {
                    alive_max += 1;
                }
            }
            // subscriptions that may have been registered but whose Subscribed record comes later are unknown: allow them
            let later = ids.len() - must_gone.len() - alive_max;
            if *n > alive_max + later {
                return fail(
                    "closed-subscriber-not-pruned",
                    format!("hub counts {n} subscriptions although at most {} can be alive (gone: {must_gone:?})", alive_max + later),
                );
            }
        }
    }
    let _ = hub_len_end;
    // outcome digest: what each subscription received + unsubscribe results
    let mut digest = format!("{got:?}");
    for o in log {
        if let Obs::UnsubReturned(id, r) = o {
            digest.push_str(&format!("|{id}:{r}"));
        }
    }
    Ok(digest)
}

fn configs(tier: Tier) -> Vec<(Config, usize)> {
    // (config, preemption bound)
    let mut v = Vec::new();
    let b = if tier.is_quick() { 2 } else { 3 };
    for cap in [1usize, 2] {
        for h in 1..=11u8 {
            if h >= 10 && cap == 1 {
                continue; // H10 / H11 use capacity >= 2
            }
            if h == 8 && cap == 1 {
                continue; // H8 uses capacity >= 2
            }
            let bound = match h {
                2 | 5 | 6 | 8 | 9 => b.min(if tier.is_quick() { 2 } else { 3 }),
                _ => b,
            };
            v.push((Config { h, cap }, bound));
        }
    }
    v
}

struct RunOut {
    cfg: Config,
    bound: usize,
    executions: u64,
    steps: u64,
    outcomes: usize,
    max_points: usize,
    cap_hit: bool,
    violation: Option<(String, String, Vec<usize>)>,
    sample: Vec<usize>,
}

fn run_one(cfg: Config, bound: usize, cap_exec: u64) -> RunOut {
    let mut outcomes: BTreeSet<String> = BTreeSet::new();
    let mut sample: Vec<usize> = Vec::new();
    let mut exec = |prefix: &[usize]| -> Result<Execution, (String, String)> {
        let b = build(cfg);
        let log = b.log.clone();
        let parked = b._parked.clone();
        let hub = b.hub.clone();
        let x = run_futures(b.tasks, prefix, 5000, &mut |_t, _tag| {}).map_err(|e| ("MACHINERY".to_string(), e))?;
        let l = final_log(&log, &parked);
        let _ = hub;
        let d = judge(cfg, &l, &x, 0)?;
        if sample.is_empty() && x.points.len() > 6 {
            sample = x.schedule_ids();
        }
        outcomes.insert(d);
        Ok(x)
    };
    // iterate the bound 0..=bound so the first counterexample has the fewest preemptions
    let mut total = RunOut { cfg, bound, executions: 0, steps: 0, outcomes: 0, max_points: 0, cap_hit: false, violation: None, sample: vec![] };
    for b in 0..=bound {
        match explore_schedules(b, cap_exec, &mut exec) {
            Ok(st) => {
                if b == bound {
                    total.executions = st.executions;
                    total.steps = st.steps;
                    total.max_points = st.max_points;
                    total.cap_hit = st.cap_hit;
                }
            }
            Err(v) => {
                total.violation = Some(v);
                break;
            }
        }
    }
    total.outcomes = outcomes.len();
    total.sample = sample;
    total
}

// ---------------------------------------------------------------------------------------------
// The real priority listener task (priority_listener::spawn_listener) on a tokio current-thread
// runtime, with the hook's yield decisions enumerated: at every switch point of the hub (lock
// acquisition, publish loop) the hook answers "yield" or "go on"; every decision vector with at most
// k yields is executed. Three datagrams are sent back to back; a subscriber of priority.window must
// receive their events in arrival order.

struct ListenerRun {
    order: Vec<u64>,
    points: usize,
}

fn listener_run(decisions: &[bool]) -> Result<ListenerRun, String> {
    use srtla_core::priority::{CriticalWindow, DATAGRAM_LEN, PROTO_MAGIC};
    use std::cell::Cell;
    let rt = tokio::runtime::Builder::new_current_thread().enable_all().build().map_err(|e| e.to_string())?;
    // a free port of this process's slice (the listener binds by address and does not report its port)
    let port = {
        let base = 30_000 + crate::world::port_slice().unwrap_or(0) as u16 * 60;
        let mut p = None;
        for k in 0..60u16 {
            if std::net::UdpSocket::bind(("127.0.0.1", base + k)).is_ok() {
                p = Some(base + k);
                break;
            }
        }
        p.ok_or("no free port for the priority listener")?
    };
    let addr: std::net::SocketAddr = ([127, 0, 0, 1], port).into();
    let count = Rc::new(Cell::new(0usize));
    let c2 = count.clone();
    let dec: Vec<bool> = decisions.to_vec();
    srtla_send::verif_hooks::install(Some(Box::new(move |_tag| {
        let i = c2.get();
        c2.set(i + 1);
        dec.get(i).copied().unwrap_or(false)
    })));
    let r = rt.block_on(async {
        let hub = SubscriptionHub::new();
        let (tx, mut rx) = mpsc::channel::<String>(16);
        let _id = hub.subscribe("priority.window", tx).await;
        let handle = srtla_send::priority_listener::spawn_listener(addr, CriticalWindow::new(), Some(hub.clone()));
        // let the listener bind
        for _ in 0..20 {
            tokio::task::yield_now().await;
        }
        let sender = std::net::UdpSocket::bind("127.0.0.1:0").map_err(|e| e.to_string())?;
        for i in 1..=3u32 {
            let mut d = [0u8; DATAGRAM_LEN];
            d[0] = PROTO_MAGIC;
            d[1..5].copy_from_slice(&(100 * i).to_be_bytes());
            sender.send_to(&d, addr).map_err(|e| e.to_string())?;
        }
        let mut order = Vec::new();
        for _ in 0..3 {
            match tokio::time::timeout(std::time::Duration::from_millis(500), rx.recv()).await {
                Ok(Some(line)) => {
                    let v: Value = serde_json::from_str(&line).unwrap_or(Value::Null);
                    order.push(v["params"]["data"]["window_ms"].as_u64().unwrap_or(0));
                }
                _ => break,
            }
        }
        handle.abort();
        Ok::<Vec<u64>, String>(order)
    });
    srtla_send::verif_hooks::install(None);
    let order = r?;
    Ok(ListenerRun { order, points: count.get() })
}

fn listener_order_exploration(rep: &mut Report, k: usize) {
    let base = match listener_run(&[]) {
        Ok(b) => b,
        Err(e) => {
            rep.machinery_errors.push(format!("priority listener exploration: {e}"));
            return;
        }
    };
    let points = base.points.min(40);
    // all decision vectors over the first `points` switch points with at most k yields
    let mut vectors: Vec<Vec<bool>> = vec![vec![]];
    fn gen_vec(out: &mut Vec<Vec<bool>>, cur: &mut Vec<usize>, from: usize, left: usize, n: usize) {
        if !cur.is_empty() {
            let mut v = vec![false; n];
            for i in cur.iter() {
                v[*i] = true;
            }
            out.push(v);
        }
        if left == 0 {
            return;
        }
        for i in from..n {
            cur.push(i);
            gen_vec(out, cur, i + 1, left - 1, n);
            cur.pop();
        }
    }
    gen_vec(&mut vectors, &mut Vec::new(), 0, k, points);
    let mut runs = 0u64;
    let mut outcomes: BTreeSet<Vec<u64>> = BTreeSet::new();
    let mut bad: Option<(Vec<bool>, Vec<u64>)> = None;
    for v in &vectors {
        runs += 1;
        match listener_run(v) {
            Ok(r) => {
                outcomes.insert(r.order.clone());
                let mut sorted = r.order.clone();
                sorted.sort_unstable();
                if r.order != sorted && bad.is_none() {
                    // the same decisions must fail the same way once more
                    if listener_run(v).map(|r2| r2.order != sorted).unwrap_or(false) {
                        bad = Some((v.clone(), r.order.clone()));
                    } else {
                        rep.machinery_errors.push("priority listener exploration: an out-of-order delivery did not reproduce".into());
                    }
                }
                if r.order.len() != 3 && rep.machinery_errors.len() < 2 {
                    rep.machinery_errors.push(format!("priority listener exploration: {} of 3 events arrived (decisions {:?})", r.order.len(), v.iter().enumerate().filter(|(_, b)| **b).map(|(i, _)| i).collect::<Vec<_>>()));
                }
            }
            Err(e) => {
                if rep.machinery_errors.len() < 2 {
                    rep.machinery_errors.push(format!("priority listener exploration: {e}"));
                }
            }
        }
    }
    rep.traces += runs;
    rep.transitions += runs * points as u64;
    rep.set("priority_listener", json!({"switch_points": base.points, "explored_points": points, "max_yields": k, "decision_vectors": runs, "distinct_orders": outcomes.len()}));
    if let Some((v, order)) = bad {
        let at: Vec<usize> = v.iter().enumerate().filter(|(_, b)| **b).map(|(i, _)| i).collect();
        rep.add_violation(Violation {
            key: "priority-window-events-out-of-publication-order".into(),
            message: format!("three priority datagrams (windows 100, 200, 300 ms) sent back to back to the real listener task: the subscriber received {order:?} when the hub's switch points {at:?} yield"),
            replay: json!({"exploration": "priority-listener", "yields_at": at}),
        });
    }
}

pub fn run(tier: Tier) -> Report {
    let mut rep = Report::new();
    listener_order_exploration(&mut rep, if tier.is_quick() { 2 } else { 3 });
    // the publish that matters sits in the housekeeping arm of the real loop: with a subscriber that never
    // reads (either topic), every pass still completes
    crate::realx::run_for(&mut rep, "C20", tier.is_quick());
    let cfgs = configs(tier);
    let cap_exec = if tier.is_quick() { 400_000 } else { 20_000_000 };
    let outs = par_map(cfgs.len(), 16, |i| run_one(cfgs[i].0, cfgs[i].1, cap_exec));
    let mut rows = Vec::new();
    for o in outs {
        rep.traces += o.executions;
        rep.transitions += o.steps;
        rep.states += o.outcomes as u64;
        if o.cap_hit {
            rep.exhaustive = false;
        }
        rows.push(json!({
            "harness": format!("H{}", o.cfg.h), "capacity": o.cfg.cap, "preemption_bound": o.bound,
            "schedules": o.executions, "poll_steps": o.steps, "distinct_outcomes": o.outcomes,
            "longest_schedule": o.max_points, "cap_hit": o.cap_hit,
        }));
        if rep.samples.len() < 4 && !o.sample.is_empty() {
            rep.samples.push(json!({"harness": format!("H{}", o.cfg.h), "capacity": o.cfg.cap, "schedule_task_ids": o.sample}));
        }
        if let Some((k, m, prefix)) = o.violation {
            if k == "MACHINERY" {
                rep.machinery_errors.push(m);
                continue;
            }
            // confirm: the same schedule must fail the same way twice
            let again = |p: &[usize]| -> Option<String> {
                let b = build(o.cfg);
                let log = b.log.clone();
                let parked = b._parked.clone();
                let x = run_futures(b.tasks, p, 5000, &mut |_, _| {}).ok()?;
                let l = final_log(&log, &parked);
                judge(o.cfg, &l, &x, 0).err().map(|e| e.0)
            };
            let (r1, r2) = (again(&prefix), again(&prefix));
            if r1.as_deref() != Some(k.as_str()) || r2.as_deref() != Some(k.as_str()) {
                rep.machinery_errors.push(format!("H{} cap {}: failure [{k}] did not reproduce on two replays ({r1:?}, {r2:?})", o.cfg.h, o.cfg.cap));
                continue;
            }
            rep.violations.push(Violation { key: k.clone(), message: m, replay: json!({"harness": o.cfg.h, "capacity": o.cfg.cap, "choices": prefix}) });
            rep.count_violation(&k, 1);
        } else if o.outcomes < 2 && !matches!(o.cfg.h, 6) {
            rep.machinery_errors.push(format!("H{} cap {}: a single observable outcome over {} schedules — nothing collided", o.cfg.h, o.cfg.cap, o.executions));
        }
    }
    rep.set("harnesses", json!(rows));
    rep.set("harness_descriptions", json!({
        "H1": "subscriber {subscribe, recv x2, unsubscribe, drain} || publisher {1,2,3}",
        "H2": "publishers {1,2} || {3,4} || subscriber (recv x3) || subscriber that never reads (permanently full)",
        "H3": "subscriber closes after 1 recv || publisher {1,2,3} then hub.len() || late subscriber",
        "H4": "topics stats / priority.window: two subscribers (one unsubscribes) || one publisher per topic",
        "H5": "subscriber+unsubscribe || subscriber+close || publisher {1,2} then hub.len() || publisher {3}",
        "H6": "two subscribers frozen for ever after subscribing || publishers {1,2,3} || {4,5}: every schedule must run to completion",
        "H7": "frozen subscriber || publisher {1,2,3,4} || subscriber that unsubscribes",
        "H8": "subscriber (recv x2) || subscriber (recv x2, unsubscribe) || publisher {1} || publisher {2}",
        "H10": "protocol client: subscribe and unsubscribe (request) through the real dispatch_async, recv x1 || publisher {1,2,3}",
        "H11": "the same with the unsubscribe sent as a notification (no id)",
        "H9": "subscriber of priority.window frozen for ever || stats subscriber (recv x1) || publisher priority.window {1,2,3} || publisher stats {4,5}: every schedule must run to completion",
    }));
    rep.set("switch_points", json!("every genuine Pending of tokio's Mutex / mpsc, plus yield points before every lock acquisition, right after every acquisition (lock held), after the id counter fetch_add, between entries of the publish loop (lock held), and after the publish loop released the lock"));
    rep.set("oracle", json!("(1) every schedule runs to completion (no deadlock), also with subscribers that never read / never run again; (2) every received line parses, is jsonrpc 2.0, has method <topic>.update of the subscription's topic and a subscription_id that subscribe returned to that very subscriber; ids pairwise distinct; (3) per subscription each value at most once, one publisher's values in program order, two subscriptions of a topic agree on the relative order of common values; a received value's publish had been invoked; (4) no value whose publish was invoked after unsubscribe(X) returned is delivered on X, and a subscriber that empties its channel right after unsubscribe returned finds it still empty at the end of the execution (nothing is put into it after the unsubscribe completed); (5) hub.len() after a publish (invoked after a receiver was dropped) has returned no longer counts that subscription"));
    rep.assume("one executor thread; explicit yield points stand in for true parallelism of the multi-threaded runtime (all interleavings of the marked accesses, sequentially consistent); tokio's internal lock-free algorithms are trusted to be linearizable");
    rep.assume("preemption-bounded: bounds per harness are listed; all executions run to completion");
    rep
}

pub fn replay(v: &Value) -> Result<(), String> {
    if v["exploration"] == "priority-listener" {
        let at: Vec<usize> = v["yields_at"].as_array().map(|a| a.iter().map(|x| x.as_u64().unwrap_or(0) as usize).collect()).unwrap_or_default();
        let mut dec = vec![false; at.iter().max().map(|m| m + 1).unwrap_or(0)];
        for i in at {
            dec[i] = true;
        }
        let r = listener_run(&dec).map_err(|e| format!("MACHINERY: {e}"))?;
        let mut sorted = r.order.clone();
        sorted.sort_unstable();
        return if r.order == sorted { Ok(()) } else { Err(format!("[priority-window-events-out-of-publication-order] received {:?}", r.order)) };
    }
    if let Some(r) = crate::realx::replay_for("C20", v) {
        return r;
    }
    let cfg = Config { h: v["harness"].as_u64().unwrap_or(1) as u8, cap: v["capacity"].as_u64().unwrap_or(1) as usize };
    let prefix: Vec<usize> = v["choices"].as_array().map(|a| a.iter().map(|x| x.as_u64().unwrap_or(0) as usize).collect()).unwrap_or_default();
    let b = build(cfg);
    let log = b.log.clone();
    let parked = b._parked.clone();
    let x = run_futures(b.tasks, &prefix, 5000, &mut |_, _| {}).map_err(|e| format!("MACHINERY: {e}"))?;
    let l = final_log(&log, &parked);
    match judge(cfg, &l, &x, 0) {
        Ok(_) => Ok(()),
        Err((k, m)) => Err(format!("[{k}] {m}")),
    }
}
