//! C01 — uplink path forwards every SRT datagram intact, once, in per-link order.
//! World + history exploration with the ledger / wire monitor of `stream.rs`.

use std::sync::Arc;
use std::time::Duration;

use serde_json::{Value, json};

use super::stream::*;
use crate::engine::{self, Limits, Model, Plan};
use crate::evidence::{Report, Tier};
use crate::world::glue_fingerprint;

fn alphabet(n: usize, reduced: bool) -> Vec<SEv> {
    let mut v = vec![SEv::Cdata, SEv::Tflush, SEv::Crtx, SEv::Cctl, SEv::Cburst(16), SEv::Thk(1000), SEv::UsrtAck(0), SEv::UlaOwn(0), SEv::Fclose(1)];
    if !reduced {
        v.extend([SEv::Ctiny, SEv::Cmtu, SEv::Cburst(33), SEv::Ureg3(1), SEv::Adv(5000), SEv::Uka(0), SEv::Fopen(1)]);
        if n > 2 {
            v.push(SEv::UlaOwn(2));
        }
    }
    v
}

fn inits(n: usize, all: bool) -> Vec<(String, InitKind)> {
    let mut v = vec![
        ("S2 live".to_string(), InitKind::Live { classic: false }),
        ("S3 streaming".to_string(), InitKind::Streaming { classic: false }),
        ("S4 link 1 stall-latched and gated".to_string(), InitKind::Latched { link: 1 }),
        ("S3 streaming, classic, guard off".to_string(), InitKind::Streaming { classic: true }),
    ];
    if all {
        v.push(("S3 high-load batch regime".to_string(), InitKind::StreamingHighLoad));
        v.push(("S3 low-activity batch regime".to_string(), InitKind::StreamingLowLoad));
        v.push(("S5 link 1 timed out, awaiting back-off".to_string(), InitKind::TimedOut { link: 1, classic: false }));
        v.push(("S2 live, classic".to_string(), InitKind::Live { classic: true }));
    }
    let _ = n;
    v
}

fn models(tier: Tier) -> Vec<(String, Arc<StreamModel>, Vec<Plan>)> {
    let or = Oracles { c01: true, c03: true, c04: false, c10: false };
    let mut out = Vec::new();
    let mk = |name: &str, n: usize, reduced: bool, all: bool| {
        Arc::new(StreamModel {
            name: name.to_string(),
            n,
            events: alphabet(n, reduced),
            inits: inits(n, all),
            or,
        })
    };
    if tier.is_quick() {
        let m = mk("links=2 reduced alphabet", 2, true, false);
        out.push((m.name.clone(), m, vec![Plan::Full { depth: 5 }]));
        let m = mk("links=2 full alphabet", 2, false, true);
        out.push((m.name.clone(), m, vec![Plan::Full { depth: 4 }]));
        // default Cdata with a flush every 8th position, from the latched state: crosses the 1-in-100 probe cadence
        let m = Arc::new(StreamModel {
            name: "links=2 probe cadence".into(),
            n: 2,
            events: alphabet(2, true),
            inits: vec![
                ("S4 link 1 stall-latched and gated".to_string(), InitKind::Latched { link: 1 }),
                ("S4b every link stall-latched (none gated)".to_string(), InitKind::AllLatched),
            ],
            or,
        });
        out.push((
            m.name.clone(),
            m,
            vec![
                Plan::Dev { k: 1, depth: 240, default: Arc::new(|p| if p % 8 == 7 { 1 } else { 0 }) },
                Plan::Dev { k: 2, depth: 36, default: Arc::new(|p| if p % 8 == 7 { 1 } else { 0 }) },
            ],
        ));
    } else {
        let m = mk("links=2 reduced alphabet", 2, true, true);
        out.push((m.name.clone(), m, vec![Plan::Full { depth: 6 }]));
        let m = mk("links=2 full alphabet", 2, false, true);
        out.push((m.name.clone(), m, vec![Plan::Full { depth: 4 }]));
        let m = mk("links=3 full alphabet", 3, false, false);
        out.push((m.name.clone(), m, vec![Plan::Full { depth: 4 }]));
        let m = Arc::new(StreamModel {
            name: "links=2 probe cadence".into(),
            n: 2,
            events: alphabet(2, false),
            inits: vec![
                ("S4 link 1 stall-latched and gated".to_string(), InitKind::Latched { link: 1 }),
                ("S3 high-load batch regime".to_string(), InitKind::StreamingHighLoad),
                ("S4b every link stall-latched (none gated)".to_string(), InitKind::AllLatched),
            ],
            or,
        });
        out.push((
            m.name.clone(),
            m,
            vec![Plan::Dev { k: 2, depth: 130, default: Arc::new(|p| if p % 8 == 7 { 1 } else { 0 }) }],
        ));
        let m = Arc::new(StreamModel {
            name: "links=3 probe cadence".into(),
            n: 3,
            events: alphabet(3, true),
            inits: vec![("S4 link 1 stall-latched and gated".to_string(), InitKind::Latched { link: 1 })],
            or,
        });
        out.push((
            m.name.clone(),
            m,
            vec![Plan::Dev { k: 2, depth: 110, default: Arc::new(|p| if p % 8 == 7 { 1 } else { 0 }) }],
        ));
    }
    out
}

pub fn run(tier: Tier) -> Report {
    let mut rep = Report::new();
    if let Err(e) = glue_fingerprint() {
        rep.machinery_errors.push(e);
        return rep;
    }
    let lim = Limits {
        wall: Duration::from_secs(if tier.is_quick() { 40 } else { 2400 }),
        ..Default::default()
    };
    for (label, m, plans) in models(tier) {
        for plan in plans {
            let ex = engine::explore(&*m, &plan, &lim);
            engine::fold(&mut rep, &*m, &format!("{label} {}", plan.describe()), &plan, ex);
        }
        rep.set(
            &format!("alphabet[{label}]"),
            json!((0..m.n_events()).map(|e| m.event_name(e)).collect::<Vec<_>>()),
        );
        rep.set(&format!("inits[{label}]"), json!(m.inits.iter().map(|i| i.0.clone()).collect::<Vec<_>>()));
    }
    if !tier.is_quick() {
        // thorough tier: bind the mirrored glue to the real event loop by one real-time run
        match crate::conformance::check() {
            Ok(obs) => rep.set("glue_conformance_run", json!(format!("real run_sender_with_config (real time, 2 uplinks, 200 datagrams, one NAK) and the mirrored world agree: {obs}"))),
            Err(e) => rep.machinery_errors.push(e),
        }
    }
    rep.set("oracle", json!("ledger + wire monitor after every event: every client-type datagram on a receiver socket is, byte for byte, the next pending accepted datagram of that link (integrity, per-link order, pairing); after each flush tick every link's queue is empty and everything accepted has been seen on the wire unless that link was reset in between (teardown, re-registration, reconnect) or its receiver is closed; between flushes a queue never exceeds 32; a datagram is never dropped while the session is established and a usable link exists; extra copies are byte-identical, only of data packets, only on links the selector reports stall-gated, at most ceil(routed/100) per gated link; the three batch vectors stay in step"));
    rep.assume("short sendmmsg results cannot be forced on loopback: send_all_datagrams' resend loop is not exercised (stated as not exercised, not claimed)");
    rep.assume("datagrams sent into a closed receiver socket are unobservable; for that link the monitor only checks the queue discipline until the socket is reopened and the queue has drained");
    rep.assume("the select! glue is mirrored (world.rs) and bound by a call-order + token digest fingerprint; real tokio timer behaviour is represented by the Tflush / Thk spacing");
    rep
}

pub fn replay(v: &Value) -> Result<(), String> {
    let mut ms = Vec::new();
    for tier in [Tier::Quick, Tier::Thorough] {
        for (l, m, _) in models(tier) {
            ms.push((l, m));
        }
    }
    engine::replay_json(&ms, v)
}
