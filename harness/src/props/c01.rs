//! C01 — uplink path forwards every SRT datagram intact, once, in per-link order.
//! World + history exploration with the ledger / wire monitor of `stream.rs`.

use std::sync::Arc;
use std::time::Duration;

use serde_json::{Value, json};

use super::stream::*;
use crate::engine::{self, Limits, Model, Plan};
use crate::evidence::{Report, Tier};
use crate::world::glue_fingerprint;

fn alphabet(n: usize, reduced: bool) -> Vec<SEv> {
    let mut v = vec![SEv::Cdata, SEv::Tflush, SEv::Crtx, SEv::Cctl, SEv::Cburst(16), SEv::Thk(1000), SEv::UsrtAck(0), SEv::UlaOwn(0), SEv::Fclose(1)];
    if !reduced {
        v.extend([SEv::Ctiny, SEv::Cmtu, SEv::Cburst(33), SEv::Ureg3(1), SEv::Adv(5000), SEv::Uka(0), SEv::Fopen(1)]);
        if n > 2 {
            v.push(SEv::UlaOwn(2));
        }
    }
    v
}

fn inits(n: usize, all: bool) -> Vec<(String, InitKind)> {
    let mut v = vec![
        ("S2 live".to_string(), InitKind::Live { classic: false }),
        ("S3 streaming".to_string(), InitKind::Streaming { classic: false }),
        ("S4 link 1 stall-latched and gated".to_string(), InitKind::Latched { link: 1 }),
        ("S3 streaming, classic, guard off".to_string(), InitKind::Streaming { classic: true }),
    ];
    if all {
        v.push(("S3 high-load batch regime".to_string(), InitKind::StreamingHighLoad));
        v.push(("S3 low-activity batch regime".to_string(), InitKind::StreamingLowLoad));
        v.push(("S5 link 1 timed out, awaiting back-off".to_string(), InitKind::TimedOut { link: 1, classic: false }));
        v.push(("S2 live, classic".to_string(), InitKind::Live { classic: true }));
    }
    let _ = n;
    v
}

fn models(tier: Tier) -> Vec<(String, Arc<StreamModel>, Vec<Plan>)> {
    let or = Oracles { c01: true, c03: true, c04: false, c10: false, c05: false };
    let mut out = Vec::new();
    let mk = |name: &str, n: usize, reduced: bool, all: bool| {
        Arc::new(StreamModel {
            name: name.to_string(),
            n,
            events: alphabet(n, reduced),
            inits: inits(n, all),
            or,
        })
    };
    if tier.is_quick() {
        let m = mk("links=2 reduced alphabet", 2, true, false);
        out.push((m.name.clone(), m, vec![Plan::Full { depth: 5 }]));
        let m = mk("links=2 full alphabet", 2, false, true);
        out.push((m.name.clone(), m, vec![Plan::Full { depth: 4 }]));
        // default Cdata with a flush every 8th position, from the latched state: crosses the 1-in-100 probe cadence
        let m = Arc::new(StreamModel {
            name: "links=2 probe cadence".into(),
            n: 2,
            events: alphabet(2, true),
            inits: vec![
                ("S4 link 1 stall-latched and gated".to_string(), InitKind::Latched { link: 1 }),
                ("S4b every link stall-latched (none gated)".to_string(), InitKind::AllLatched),
            ],
            or,
        });
        out.push((
            m.name.clone(),
            m,
            vec![
                Plan::Dev { k: 1, depth: 240, default: Arc::new(|p| if p % 8 == 7 { 1 } else { 0 }) },
                Plan::Dev { k: 2, depth: 36, default: Arc::new(|p| if p % 8 == 7 { 1 } else { 0 }) },
            ],
        ));
    } else {
        let m = mk("links=2 reduced alphabet", 2, true, true);
        out.push((m.name.clone(), m, vec![Plan::Full { depth: 6 }]));
        let m = mk("links=2 full alphabet", 2, false, true);
        out.push((m.name.clone(), m, vec![Plan::Full { depth: 4 }]));
        let m = mk("links=3 full alphabet", 3, false, false);
        out.push((m.name.clone(), m, vec![Plan::Full { depth: 4 }]));
        let m = Arc::new(StreamModel {
            name: "links=2 probe cadence".into(),
            n: 2,
            events: alphabet(2, false),
            inits: vec![
                ("S4 link 1 stall-latched and gated".to_string(), InitKind::Latched { link: 1 }),
                ("S3 high-load batch regime".to_string(), InitKind::StreamingHighLoad),
                ("S4b every link stall-latched (none gated)".to_string(), InitKind::AllLatched),
            ],
            or,
        });
        out.push((
            m.name.clone(),
            m,
            vec![Plan::Dev { k: 2, depth: 80, default: Arc::new(|p| if p % 8 == 7 { 1 } else { 0 }) }],
        ));
        let m = Arc::new(StreamModel {
            name: "links=3 probe cadence".into(),
            n: 3,
            events: alphabet(3, true),
            inits: vec![("S4 link 1 stall-latched and gated".to_string(), InitKind::Latched { link: 1 })],
            or,
        });
        out.push((
            m.name.clone(),
            m,
            vec![Plan::Dev { k: 2, depth: 70, default: Arc::new(|p| if p % 8 == 7 { 1 } else { 0 }) }],
        ));
    }
    out
}

/// `send_all_datagrams` under short `sendmmsg` results.
///
/// Loopback UDP never produces a short count, so the resend loop is driven on
/// an AF_UNIX datagram socketpair wrapped in the real `BatchUdpSocket`: the
/// peer queue holds about 10 datagrams and the send buffer is minimal, so a
/// batch is accepted only partially until the reader drains. The reader is the
/// controlled environment: at every point where the send future is pending it
/// drains a chosen number of datagrams (the enumeration is over batch size x
/// datagram size x drain pattern). Oracle: the function returns Ok and every
/// datagram arrived exactly once, in order, byte-identical.
fn short_send_product(rep: &mut Report, quick: bool) {
    use std::os::unix::net::UnixDatagram;
    use std::task::Poll;
    let sizes: Vec<usize> = if quick { vec![1, 9, 10, 11, 12, 31, 32, 33, 64, 65, 96] } else { (1..=96).collect() };
    let lens: Vec<usize> = if quick { vec![1316] } else { vec![16, 188, 1316] };
    // drain pattern: how many datagrams the reader takes each time the sender is stuck
    let patterns: Vec<(&str, Vec<usize>)> = vec![("one-at-a-time", vec![1]), ("three", vec![3]), ("all", vec![usize::MAX]), ("1,all,2", vec![1, usize::MAX, 2])];
    let rt = tokio::runtime::Builder::new_current_thread().enable_all().build().expect("runtime");
    let mut cases = 0u64;
    let mut short_seen = 0u64;
    let mut pendings = 0u64;
    for &len in &lens {
        for &n in &sizes {
            for (pname, pat) in &patterns {
                cases += 1;
                let pkts: Vec<Vec<u8>> = (0..n as u32)
                    .map(|i| {
                        let mut p = vec![(i as u8) ^ 0x5a; len.max(8)];
                        p[..4].copy_from_slice(&(1000 + i).to_be_bytes());
                        p[4..8].copy_from_slice(&(n as u32).to_be_bytes());
                        p
                    })
                    .collect();
                let res: Result<(Vec<Vec<u8>>, u64, bool), String> = rt.block_on(async {
                    let (tx, rx) = socket2::Socket::pair(socket2::Domain::UNIX, socket2::Type::DGRAM, None).map_err(|e| e.to_string())?;
                    tx.set_nonblocking(true).map_err(|e| e.to_string())?;
                    let _ = tx.set_send_buffer_size(1);
                    let rx: UnixDatagram = rx.into();
                    rx.set_nonblocking(true).map_err(|e| e.to_string())?;
                    let sock = srtla_send::net::BatchUdpSocket::new(tx).map_err(|e| e.to_string())?;
                    let bufs: Vec<&[u8]> = pkts.iter().map(|p| p.as_slice()).collect();
                    // is the first sendmmsg really short on this kernel? (non-vacuity)
                    let mut fut = std::pin::pin!(srtla_send::net::send_all_datagrams(&sock, &bufs));
                    let mut got: Vec<Vec<u8>> = Vec::new();
                    let mut buf = vec![0u8; 2048];
                    let mut stuck = 0u64;
                    let mut k = 0usize;
                    let mut short = false;
                    let ok = loop {
                        let r = std::future::poll_fn(|cx| Poll::Ready(fut.as_mut().poll(cx))).await;
                        match r {
                            Poll::Ready(Ok(())) => break true,
                            Poll::Ready(Err(e)) => return Err(format!("send_all_datagrams returned an error: {e}")),
                            Poll::Pending => {
                                stuck += 1;
                                short = true;
                                if stuck > 10_000 {
                                    return Err("send_all_datagrams never finished although the reader kept draining".to_string());
                                }
                                let want = pat[k % pat.len()];
                                k += 1;
                                let mut taken = 0usize;
                                while taken < want {
                                    match rx.recv(&mut buf) {
                                        Ok(m) => {
                                            got.push(buf[..m].to_vec());
                                            taken += 1;
                                        }
                                        Err(_) => break,
                                    }
                                }
                                // let the I/O driver deliver the writability event
                                tokio::time::sleep(std::time::Duration::from_micros(300)).await;
                            }
                        }
                    };
                    let _ = ok;
                    while let Ok(m) = rx.recv(&mut buf) {
                        got.push(buf[..m].to_vec());
                    }
                    Ok((got, stuck, short))
                });
                match res {
                    Err(e) => rep.add_violation(crate::evidence::Violation {
                        key: "short-send-loop-failed".into(),
                        message: format!("batch of {n} x {len} bytes, reader pattern {pname}: {e}"),
                        replay: json!({"exploration": "short-send", "batch": n, "len": len, "pattern": pname}),
                    }),
                    Ok((got, stuck, short)) => {
                        pendings += stuck;
                        if short {
                            short_seen += 1;
                        }
                        if got != pkts {
                            let seqs: Vec<u32> = got.iter().map(|p| u32::from_be_bytes([p[0], p[1], p[2], p[3]]) - 1000).collect();
                            rep.add_violation(crate::evidence::Violation {
                                key: "short-send-lost-duplicated-or-reordered".into(),
                                message: format!("batch of {n} x {len} bytes, reader pattern {pname}: send_all_datagrams returned Ok but the wire saw {} datagrams, indices {seqs:?}", got.len()),
                                replay: json!({"exploration": "short-send", "batch": n, "len": len, "pattern": pname}),
                            });
                        }
                    }
                }
            }
        }
    }
    rep.traces += cases;
    rep.transitions += pendings + cases;
    rep.set("short_send_product", json!({"cases": cases, "cases_in_which_the_sender_got_stuck (short sendmmsg)": short_seen, "pending_points": pendings, "batch_sizes": sizes.len(), "datagram_lengths": lens, "reader_patterns": patterns.iter().map(|p| p.0).collect::<Vec<_>>()}));
    if short_seen == 0 {
        rep.observe("short sendmmsg results could not be provoked on this kernel: the resend loop of send_all_datagrams was not exercised".into());
    }
}

pub fn run(tier: Tier) -> Report {
    let mut rep = Report::new();
    crate::realx::run_for(&mut rep, "C01", tier.is_quick());
    if let Err(e) = glue_fingerprint() {
        rep.machinery_errors.push(format!("{e} (the mirrored explorations were skipped; the real-loop explorations above were run)"));
        return rep;
    }
    // the mirror is also bound behaviourally: lock-step runs against the real loop
    crate::realx::run_lockstep(&mut rep, tier.is_quick());
    let lim = Limits {
        wall: Duration::from_secs(if tier.is_quick() { 40 } else { 900 }),
        ..Default::default()
    };
    for (label, m, plans) in models(tier) {
        for plan in plans {
            let ex = engine::explore(&*m, &plan, &lim);
            engine::fold(&mut rep, &*m, &format!("{label} {}", plan.describe()), &plan, ex);
        }
        rep.set(
            &format!("alphabet[{label}]"),
            json!((0..m.n_events()).map(|e| m.event_name(e)).collect::<Vec<_>>()),
        );
        rep.set(&format!("inits[{label}]"), json!(m.inits.iter().map(|i| i.0.clone()).collect::<Vec<_>>()));
    }
    short_send_product(&mut rep, tier.is_quick());
    if !tier.is_quick() {
        // thorough tier: bind the mirrored glue to the real event loop by one real-time run
        match crate::conformance::check() {
            Ok(obs) => rep.set("glue_conformance_run", json!(format!("real run_sender_with_config (real time, 2 uplinks, 200 datagrams, one NAK) and the mirrored world agree: {obs}"))),
            Err(e) => rep.machinery_errors.push(e),
        }
    }
    rep.set("oracle", json!("ledger + wire monitor after every event: every client-type datagram on a receiver socket is, byte for byte, the next pending accepted datagram of that link (integrity, per-link order, pairing); after each flush tick every link's queue is empty and everything accepted has been seen on the wire unless that link was reset in between (teardown, re-registration, reconnect) or its receiver is closed; between flushes a queue never exceeds 32; a datagram is never dropped while the session is established and a usable link exists; extra copies are byte-identical, only of data packets, only on links the selector reports stall-gated, at most ceil(routed/100) per gated link; the three batch vectors stay in step"));
    rep.assume("short sendmmsg results cannot be forced on loopback UDP: the resend loop of send_all_datagrams is driven separately on an AF_UNIX datagram socketpair wrapped in the real BatchUdpSocket (batch size x datagram size x reader drain pattern)");
    rep.assume("datagrams sent into a closed receiver socket are unobservable; for that link the monitor only checks the queue discipline until the socket is reopened and the queue has drained");
    rep.assume("the select! glue is mirrored (world.rs) and bound by a call-order + token digest fingerprint; real tokio timer behaviour is represented by the Tflush / Thk spacing");
    rep
}

pub fn replay(v: &Value) -> Result<(), String> {
    if let Some(r) = crate::realx::replay_for("C01", v) {
        return r;
    }
    if v["exploration"] == "short-send" {
        let mut rep = Report::new();
        short_send_product(&mut rep, false);
        return match rep.violations.first() {
            None => Ok(()),
            Some(x) => Err(format!("[{}] {}", x.key, x.message)),
        };
    }
    let mut ms = Vec::new();
    for tier in [Tier::Quick, Tier::Thorough] {
        for (l, m, _) in models(tier) {
            ms.push((l, m));
        }
    }
    engine::replay_json(&ms, v)
}
