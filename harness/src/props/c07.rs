//! C07 — registration handshake follows the two-phase SRTLA protocol.
//!
//! Explicit-state BFS (canonical keys, relative saturated timestamps) over the
//! world restricted to the handshake alphabet: handshake packets arrive
//! through the real `handle_uplink_packet`, time passes through the real
//! `handle_housekeeping` (which contains all REG1/REG2 emission sites), and an
//! independent wire-level monitor watches the receiver-side sockets.

use std::sync::atomic::{AtomicU64, Ordering};
use std::time::Duration;

use serde_json::{Value, json};
use srtla_core::connection::LinkPhase;
use srtla_send::config::DynamicConfig;

use crate::engine::{self, Canon, Fail, Model};
use crate::evidence::{Report, Tier};
use crate::util::T0;
use crate::world::*;

pub static REG1_AFTER_TIMEOUT: AtomicU64 = AtomicU64::new(0);
pub static ADOPTIONS: AtomicU64 = AtomicU64::new(0);
pub static CONNECTS: AtomicU64 = AtomicU64::new(0);

#[derive(Clone, Copy, Debug, PartialEq)]
enum Ev {
    Ngp(usize),
    /// (link, id B instead of A, length)
    Reg2(usize, bool, usize),
    Reg3(usize),
    Err(usize),
    Hk(u64),
}

#[derive(Clone, Debug, PartialEq, Eq, Hash)]
struct Mon {
    /// outstanding group-creating REG1: (link, emitted at)
    outstanding: Option<(usize, u64)>,
    /// an id was adopted since the last driver pass: one broadcast round is due
    broadcast_due: bool,
    any_connected_at_last_hk: bool,
    /// a REG1 went unanswered for 4 s and was abandoned (for the reachability check)
    abandoned_once: bool,
    /// a REG3 was processed since the outstanding REG1 was emitted (the group exists)
    reg3_since_reg1: bool,
}

#[derive(Clone)]
pub struct St {
    w: World,
    mon: Mon,
    /// the sender's original id (tag 0)
    id0: [u8; 256],
}

pub struct M {
    n: usize,
    events: Vec<Ev>,
    name: String,
    start: u8,
}

impl M {
    fn new(n: usize, dts: &[u64], start: u8) -> Self {
        let mut events = Vec::new();
        for i in 0..n {
            events.push(Ev::Ngp(i));
        }
        events.push(Ev::Hk(1000));
        for i in 0..n {
            events.push(Ev::Reg2(i, false, 258));
        }
        for i in 0..n {
            events.push(Ev::Reg3(i));
        }
        for dt in dts {
            if *dt != 1000 {
                events.push(Ev::Hk(*dt));
            }
        }
        for i in 0..n {
            events.push(Ev::Err(i));
            events.push(Ev::Reg2(i, true, 258));
            events.push(Ev::Reg2(i, false, 257));
            events.push(Ev::Reg2(i, false, 2));
        }
        let name = format!("links={n} housekeeping_dts={dts:?} start={}", ["cold", "established"][start as usize]);
        Self { n, events, name, start }
    }
}

fn id_a(cur: &[u8; 256]) -> Vec<u8> {
    // what srtla_rec answers: the sender's half kept, the receiver's half filled in
    let mut id = cur.to_vec();
    for x in id[128..].iter_mut() {
        *x = 0xab;
    }
    id
}
fn id_b() -> Vec<u8> {
    vec![0x5cu8; 256]
}

impl M {
    fn id_tag(&self, s: &St, id: &[u8]) -> u8 {
        if id == s.id0 {
            0
        } else if id == id_b().as_slice() {
            2
        } else if id[128..].iter().all(|x| *x == 0xab) {
            1
        } else {
            3
        }
    }
}

impl Model for M {
    type S = St;
    type W = Env;
    fn worker(&self) -> Env {
        Env::new()
    }
    fn n_inits(&self) -> usize {
        1
    }
    fn init_name(&self, _i: usize) -> String {
        if self.start == 0 {
            "S0 cold start (probes sent, initial housekeeping)".into()
        } else {
            "S1 established (all links registered by the scripted handshake)".into()
        }
    }
    fn init(&self, env: &mut Env, _i: usize) -> St {
        if self.start == 0 {
            let (w, _) = World::cold_start(env, self.n, DynamicConfig::new(), T0);
            let id0 = w.reg.srtla_id;
            St {
                mon: Mon { outstanding: None, broadcast_due: false, any_connected_at_last_hk: false, abandoned_once: false, reg3_since_reg1: false },
                w,
                id0,
            }
        } else {
            let (w, _) = established(env, self.n, DynamicConfig::new(), T0);
            let id0 = w.reg.srtla_id;
            St {
                mon: Mon { outstanding: None, broadcast_due: false, any_connected_at_last_hk: true, abandoned_once: false, reg3_since_reg1: false },
                w,
                id0,
            }
        }
    }
    fn n_events(&self) -> usize {
        self.events.len()
    }
    fn event_name(&self, e: usize) -> String {
        format!("{:?}", self.events[e])
    }

    fn step(&self, env: &mut Env, s: &mut St, e: usize) -> Result<(), Fail> {
        let ev = self.events[e];
        let pre_connected: Vec<bool> = s.w.connections.iter().map(|c| c.connected).collect();
        let pre_id = s.w.reg.srtla_id;
        // time-out status each link has at the moment the pass runs (own rule, pre-pass fields)
        let hk_now = match ev {
            Ev::Hk(dt) => s.w.now + dt,
            _ => s.w.now,
        };
        let pre_timed_out: Vec<bool> = s
            .w
            .connections
            .iter()
            .map(|c| crate::sel::oracle_timed_out(c, hk_now, 5000))
            .collect();
        let out = match ev {
            Ev::Ngp(i) => s.w.arm_uplink(env, i, &[0x92, 0x11]),
            Ev::Reg2(i, b, len) => {
                let id = if b { id_b() } else { id_a(&s.w.reg.srtla_id) };
                let mut p = vec![0x92u8, 0x01];
                p.extend_from_slice(&id);
                p.truncate(len);
                s.w.arm_uplink(env, i, &p)
            }
            Ev::Reg3(i) => s.w.arm_uplink(env, i, &[0x92, 0x02]),
            Ev::Err(i) => s.w.arm_uplink(env, i, &[0x92, 0x10]),
            Ev::Hk(dt) => {
                s.w.advance(dt);
                s.w.arm_housekeeping(env)
            }
        };
        let now = s.w.now;
        let ctx = |what: &str| format!("{what} (event {ev:?} at +{} ms)", now - T0);
        // ---- what went out
        let mut reg1_links: Vec<usize> = Vec::new();
        let mut reg2_per_link = vec![0usize; self.n];
        for (l, b) in &out.wire {
            match pkt_type(b) {
                Some(0x9200) => {
                    if b.len() != 258 {
                        return Err(Fail::new("reg1-wrong-length", ctx(&format!("REG1 of {} bytes on link {l}", b.len()))));
                    }
                    if b[2..] != s.w.reg.srtla_id[..] {
                        return Err(Fail::new("reg1-carries-stale-id", ctx(&format!("REG1 on link {l} does not carry the currently adopted id"))));
                    }
                    reg1_links.push(*l);
                }
                Some(0x9201) => {
                    if b.len() != 258 {
                        return Err(Fail::new("reg2-wrong-length", ctx(&format!("REG2 of {} bytes on link {l}", b.len()))));
                    }
                    if b[2..] != s.w.reg.srtla_id[..] {
                        return Err(Fail::new("reg2-carries-stale-id", ctx(&format!("registration REG2 on link {l} does not carry the currently adopted id"))));
                    }
                    if *l < self.n {
                        reg2_per_link[*l] += 1;
                    }
                }
                Some(0x9000) => {}
                other => {
                    return Err(Fail::new("unexpected-datagram-on-uplink", ctx(&format!("type {other:?} len {} on link {l}", b.len()))));
                }
            }
        }
        // ---- (v) connected rises only on REG3 on that link
        for (l, c) in s.w.connections.iter().enumerate() {
            if c.connected && !pre_connected[l] {
                if ev != Ev::Reg3(l) {
                    return Err(Fail::new("connected-without-reg3", ctx(&format!("link {l} became connected"))));
                }
                CONNECTS.fetch_add(1, Ordering::Relaxed);
                if !matches!(c.phase, LinkPhase::Warming { .. }) {
                    return Err(Fail::new("reg3-did-not-start-warming", ctx(&format!("link {l} phase {}", c.phase))));
                }
            }
        }
        // ---- (iii)/(vi) id adoption
        let adopted = s.w.reg.srtla_id != pre_id;
        let eligible = match ev {
            Ev::Reg2(i, _, len) => len >= 258 && s.mon.outstanding.is_some_and(|(l, _)| l == i),
            _ => false,
        };
        if adopted && !eligible {
            return Err(Fail::new(
                "reg2-accepted-without-matching-outstanding-reg1",
                ctx(&format!("id adopted; monitor: outstanding REG1 {:?}", s.mon.outstanding)),
            ));
        }
        // the other direction (a matching full-length REG2 is adopted) is required
        // while no REG3 has been processed since that REG1 went out
        let same_bytes = match ev {
            Ev::Reg2(_, b, _) => {
                let id = if b { id_b() } else { id_a(&pre_id) };
                id.as_slice() == pre_id
            }
            _ => false,
        };
        if eligible && !adopted && !same_bytes && !s.mon.reg3_since_reg1 {
            return Err(Fail::new(
                "reg2-from-reg1-link-not-adopted",
                ctx(&format!("full-length REG2 on the link of the outstanding REG1 {:?} was not adopted", s.mon.outstanding)),
            ));
        }
        let did_adopt = adopted || (eligible && same_bytes && !s.mon.reg3_since_reg1);
        if did_adopt {
            ADOPTIONS.fetch_add(1, Ordering::Relaxed);
            s.mon.broadcast_due = true;
        }
        if eligible {
            // answered (accepted or, after a REG3, deliberately ignored): no longer outstanding
            s.mon.outstanding = None;
        }
        if let Ev::Reg3(_) = ev {
            s.mon.reg3_since_reg1 = true;
        }
        // ---- outstanding REG1 bookkeeping for inbound events
        if let Ev::Err(_) = ev {
            s.mon.outstanding = None;
        }
        if let Ev::Hk(_) = ev {
            if let Some((ol, at)) = s.mon.outstanding {
                // (vii-b) an attempt whose 4 s have run out is abandoned *before* the pass deals with the links: a
                // link that this pass reconnects is then no longer "the link awaiting REG2" and is re-registered
                // with REG2 (only a still pending attempt is kept alive by a REG1 re-send)
                if now - at >= 4000 && ol < self.n && s.w.connections[ol].reconnection.last_reconnect_attempt_ms == now && reg2_per_link[ol] == 0 && s.w.conn_io.contains_key(&s.w.connections[ol].conn_id) {
                    return Err(Fail::new(
                        "expired-reg1-kept-alive-by-the-reconnect",
                        ctx(&format!("the REG1 sent on link {ol} at +{} ms had run out, the pass reconnected that link and sent it {} instead of REG2", at - T0, if reg1_links.contains(&ol) { "REG1 again" } else { "nothing" })),
                    ));
                }
                if now - at >= 4000 {
                    s.mon.outstanding = None;
                    s.mon.abandoned_once = true;
                    // (vii) the manager must have abandoned it too, unless it re-armed in this very pass
                    if s.w.reg.pending_reg2_idx().is_some() && reg1_links.is_empty() {
                        return Err(Fail::new(
                            "unanswered-reg1-not-abandoned-after-4s",
                            ctx(&format!("REG1 emitted at +{} still pending", at - T0)),
                        ));
                    }
                }
            }
        }
        // ---- (i)/(ii) REG1 emissions
        for l in &reg1_links {
            if let Some((o, at)) = s.mon.outstanding {
                if o != *l {
                    return Err(Fail::new(
                        "two-reg1-outstanding",
                        ctx(&format!("REG1 on link {l} while the REG1 sent on link {o} at +{} ms is still outstanding", at - T0)),
                    ));
                }
            }
            match ev {
                Ev::Hk(_) => {
                    if s.w.connections.iter().any(|c| c.connected) {
                        return Err(Fail::new(
                            "driver-reg1-while-registered",
                            ctx(&format!("the registration driver emitted REG1 on link {l} while a link is connected")),
                        ));
                    }
                    if s.mon.abandoned_once {
                        REG1_AFTER_TIMEOUT.fetch_add(1, Ordering::Relaxed);
                    }
                }
                Ev::Ngp(_) => {
                    if s.w.connections.iter().any(|c| c.connected) {
                        let key = if s.mon.any_connected_at_last_hk {
                            "immediate-reg1-while-registered"
                        } else {
                            // the registered-link count was stale (refreshed by housekeeping only)
                            "immediate-reg1-while-registered:link-registered-since-last-housekeeping"
                        };
                        return Err(Fail::new(
                            key,
                            ctx(&format!("immediate REG1 on link {l} in answer to REG_NGP while a link is connected")),
                        ));
                    }
                }
                _ => {
                    return Err(Fail::new("reg1-from-unexpected-event", ctx(&format!("REG1 on link {l}"))));
                }
            }
            s.mon.outstanding = Some((*l, now));
            s.mon.reg3_since_reg1 = false;
        }
        // ---- broadcast rounds
        if let Ev::Hk(_) = ev {
            if s.mon.broadcast_due {
                for l in 0..self.n {
                    if reg2_per_link[l] == 0 {
                        return Err(Fail::new("broadcast-round-missed-a-link", ctx(&format!("id adopted, but no REG2 on link {l} at the next driver pass"))));
                    }
                }
                s.mon.broadcast_due = false;
            }
            for l in 0..self.n {
                // a link that is neither timed out nor being reset gets at most the one broadcast REG2
                let limit = if pre_timed_out[l] { 2 } else { 1 };
                if reg2_per_link[l] > limit {
                    return Err(Fail::new("more-than-one-reg2-round", ctx(&format!("{} REG2s on link {l} in one pass", reg2_per_link[l]))));
                }
            }
            s.mon.any_connected_at_last_hk = s.w.connections.iter().any(|c| c.connected);
        } else if reg2_per_link.iter().any(|x| *x > 0) {
            return Err(Fail::new("reg2-outside-driver-pass", ctx("a REG2 was emitted outside a housekeeping pass")));
        }
        Ok(())
    }

    fn fingerprint(&self, s: &St) -> u64 {
        engine::hash_of(&self.canon(s))
    }
}

fn rel(deadline: u64, now: u64, cap: u64) -> u16 {
    if deadline == 0 {
        return 0xffff;
    }
    (deadline.saturating_sub(now).min(cap)) as u16
}
fn age(stamp: Option<u64>, now: u64, cap: u64) -> u32 {
    match stamp {
        None => 0xffff_ffff,
        Some(t) => now.saturating_sub(t).min(cap) as u32,
    }
}

impl Canon for M {
    /// Deadlines are compared with `now >=` only and ages with `>=` constants,
    /// so differences saturated just above the largest constant compared
    /// against have identical futures. Fields that cannot influence handshake
    /// output (windows, RTT, bitrate, batch queues, keepalive cadence) are dropped.
    fn canon(&self, s: &St) -> Vec<u8> {
        let now = s.w.now;
        let r = s.w.reg.verif_private();
        let mut k: Vec<u8> = Vec::with_capacity(64);
        k.push(self.id_tag(s, &r.srtla_id));
        k.push(r.pending_reg2_idx.map(|x| x as u8).unwrap_or(0xff));
        k.extend_from_slice(&rel(r.pending_timeout_at_ms, now, 4001).to_le_bytes());
        k.push(r.active_connections as u8);
        k.push(r.has_connected as u8);
        k.push(r.broadcast_reg2_pending as u8);
        k.push(r.reg1_target_idx.map(|x| x as u8).unwrap_or(0xff));
        k.extend_from_slice(&rel(r.reg1_next_send_at_ms.max(1), now, 4001).to_le_bytes());
        k.push(r.probing_state);
        for (i, sent, rtt) in &r.probe_results {
            k.push(*i as u8);
            // the probe RTT only matters through min_by_key: keep the value (bounded by the dt menu)
            k.extend_from_slice(&(rtt.map(|x| x.min(60_000) as u32).unwrap_or(0xffff_ffff)).to_le_bytes());
            k.extend_from_slice(&(now.saturating_sub(*sent).min(2001) as u16).to_le_bytes());
        }
        for c in s.w.connections.iter() {
            k.push(c.connected as u8);
            k.push(match c.phase {
                LinkPhase::Registering => 0,
                LinkPhase::Warming { .. } => 1,
                LinkPhase::Live => 2,
                LinkPhase::Degraded => 3,
            });
            if let LinkPhase::Warming { entered_ms, .. } = c.phase {
                k.extend_from_slice(&(now.saturating_sub(entered_ms).min(5001) as u16).to_le_bytes());
            }
            k.extend_from_slice(&age(c.last_received, now, 5001).to_le_bytes());
            k.push((c.reconnection.connection_established_ms != 0) as u8);
            k.extend_from_slice(&rel(c.reconnection.startup_grace_deadline_ms, now, 5001).to_le_bytes());
            k.extend_from_slice(
                &age(
                    if c.reconnection.last_reconnect_attempt_ms == 0 { None } else { Some(c.reconnection.last_reconnect_attempt_ms) },
                    now,
                    120_001,
                )
                .to_le_bytes(),
            );
            k.push(c.reconnection.reconnect_failure_count.min(6) as u8);
        }
        // monitor memory
        match s.mon.outstanding {
            None => k.push(0xff),
            Some((l, at)) => {
                k.push(l as u8);
                k.extend_from_slice(&(now.saturating_sub(at).min(4001) as u16).to_le_bytes());
            }
        }
        k.push(s.mon.broadcast_due as u8);
        k.push(s.mon.any_connected_at_last_hk as u8);
        k.push(s.mon.abandoned_once as u8);
        k.push(s.mon.reg3_since_reg1 as u8);
        k
    }
}

fn configs(tier: Tier) -> Vec<(M, usize, usize)> {
    let full: [u64; 8] = [1, 999, 1000, 1001, 3999, 4000, 4001, 5000];
    if tier.is_quick() {
        vec![
            (M::new(2, &[1000, 4000], 0), 8, 400_000),
            (M::new(2, &[1000, 999, 4001, 5000], 0), 6, 400_000),
            (M::new(2, &full, 0), 5, 400_000),
            (M::new(3, &[1000, 4000], 0), 6, 400_000),
            (M::new(2, &[1000, 4000, 5000], 1), 7, 400_000),
        ]
    } else {
        vec![
            (M::new(2, &[1000, 4000], 0), 14, 3_000_000),
            (M::new(2, &[1000, 999, 4001, 5000], 0), 11, 3_000_000),
            (M::new(2, &full, 0), 8, 3_000_000),
            (M::new(3, &[1000, 4000], 0), 10, 3_000_000),
            (M::new(3, &[1000, 3999, 4001, 5000], 0), 8, 3_000_000),
            (M::new(2, &[1000, 4000, 5000], 1), 11, 3_000_000),
            (M::new(3, &[1000, 4000, 5000], 1), 8, 3_000_000),
        ]
    }
}

pub fn run(tier: Tier) -> Report {
    let mut rep = Report::new();
    if let Err(e) = glue_fingerprint() {
        rep.machinery_errors.push(e);
        return rep;
    }
    let cfgs = configs(tier);
    let wall = Duration::from_secs(if tier.is_quick() { 35 } else { 1500 });
    let quick = tier.is_quick();
    let results = engine::par_map(cfgs.len(), 16, |i| {
        let (m, depth, max_states) = &cfgs[i];
        let mut w = m.worker();
        if quick {
            engine::bfs(m, &mut w, 0, *depth, *max_states, wall)
        } else {
            // the deep searches keep paths, not worlds, in their frontier (a frontier of a million real
            // worlds does not fit into memory)
            engine::bfs_lowmem(m, &mut w, 0, *depth, *max_states, wall)
        }
    });
    for (i, r) in results.into_iter().enumerate() {
        let (m, _, _) = &cfgs[i];
        engine::fold_bfs(&mut rep, m, &m.name.clone(), r);
    }
    // depth-bounded: the frontier is not expected to empty
    rep.exhaustive = rep.extra["explorations"].as_array().map(|a| a.iter().all(|x| x["cap_hit"] == json!(false))).unwrap_or(false);
    rep.set("reachability", json!({
        "id_adoptions": ADOPTIONS.load(Ordering::Relaxed),
        "links_connected_on_reg3": CONNECTS.load(Ordering::Relaxed),
        "driver_reg1_after_an_abandoned_attempt": REG1_AFTER_TIMEOUT.load(Ordering::Relaxed),
    }));
    for (k, v) in [("id adoption", ADOPTIONS.load(Ordering::Relaxed)), ("REG3 connect", CONNECTS.load(Ordering::Relaxed)), ("new REG1 after a 4 s abandonment", REG1_AFTER_TIMEOUT.load(Ordering::Relaxed))] {
        if v == 0 && rep.violation_counts.is_empty() {
            rep.machinery_errors.push(format!("vacuous exploration: no {k} was reached"));
        }
    }
    rep.set("alphabet", json!((0..cfgs[2].0.n_events()).map(|e| cfgs[2].0.event_name(e)).collect::<Vec<_>>()));
    rep.set("oracle", json!("wire monitor on the receiver-side sockets: (i) no REG1 on link j while a REG1 on i != j is outstanding (emitted; no full-length REG2 from i, no REG_ERR, no housekeeping pass >= 4000 ms later); (ii) a REG1 (from the driver pass or immediately in answer to REG_NGP) only while no link is connected; (iii) the adopted id changes only if a REG2 of >= 258 bytes arrives on the link of the outstanding REG1 (and must change then unless a REG3 was processed since that REG1), and exactly one REG2 round to every link follows at the next pass; (iv) every REG1 / registration REG2 carries the adopted id and is 258 bytes; (v) connected rises only in the step that processed REG3 on that link (phase Warming); (vi) no adoption without an outstanding REG1 (after REG_ERR / timeout); (vii) an unanswered REG1 is abandoned at the first pass >= 4000 ms and a later REG1 is reachable"));
    rep.set("canonical_key", json!("manager private state with deadlines as min(deadline-now, 4001), ids as tags, probe answers; per link connected/phase/receive age (sat. 5001)/established/grace left (sat. 5001)/back-off age (sat. 120001)/failure count; monitor memory (outstanding REG1 with age sat. 4001, broadcast due, registered-at-last-pass, abandoned-once)"));
    rep.assume("replies are not tied to requests: late, duplicate, never-arriving and wrong-link replies are event orders; no client traffic in this alphabet");
    rep.assume("depth-bounded BFS (not a fixpoint): states / transitions / depth per configuration are in 'explorations'");
    rep.assume("the select! glue is mirrored (world.rs) and bound by a call-order + token digest fingerprint");
    rep
}

pub fn replay(v: &Value) -> Result<(), String> {
    let mut ms = Vec::new();
    for tier in [Tier::Quick, Tier::Thorough] {
        for (m, _, _) in configs(tier) {
            ms.push((m.name.clone(), std::sync::Arc::new(m)));
        }
    }
    engine::replay_json(&ms, v)
}
