//! C11 — enhanced selection is stable, hysteretic and respects its gates.
//!
//! Exhaustive product enumeration of link states (1..3 links, archetypes for
//! 4) through the real selector in enhanced mode, judged against an
//! independent re-computation of the per-link scores and of the decision rule.

use std::sync::Mutex;
use std::sync::atomic::{AtomicU64, Ordering};

use serde_json::{Value, json};
use srtla_core::connection::{LinkPhase, SrtlaConnection};
use srtla_core::mode::SchedulingMode;
use srtla_core::selection::select_connection_idx;

use super::c03::{spec_from_json, spec_to_json};
use crate::engine::{Fail, hash_of, par_map};
use crate::evidence::{Report, Tier, Violation};
use crate::sel::*;
use crate::util::T0;

const NOW: u64 = T0 + 1_000_000;
const Q_MIN: f64 = 0.35;
const Q_MAX: f64 = 1.1 * 1.03;

fn base_score(c: &SrtlaConnection) -> i32 {
    if !c.connected {
        return -1;
    }
    let tot = c.in_flight_packets.saturating_add(c.batch_sender.verif_lens().0 as i32);
    c.window / tot.saturating_add(1).max(1)
}

fn phase_weight(c: &SrtlaConnection) -> f64 {
    match c.phase {
        LinkPhase::Registering => 0.0,
        LinkPhase::Warming { .. } => 0.8,
        LinkPhase::Live | LinkPhase::Degraded => 1.0,
    }
}

fn soft_cap(c: &SrtlaConnection) -> f64 {
    if c.cc_target_bps == 0 {
        return 1.0;
    }
    let measured = c.bitrate.current_bitrate_bps;
    if measured <= 0.0 {
        return 1.0;
    }
    let t = c.cc_target_bps as f64;
    let head = if t - measured > 0.0 { t - measured } else { 0.0 };
    let f = head / t;
    if f < 0.1 {
        0.1
    } else if f > 1.0 {
        1.0
    } else {
        f
    }
}

/// The documented quality multiplier, written out again: 1.1 with no NAK ever; in the first 30 s of the connection
/// 1.1 / 0.98 only; afterwards 1 - 0.5 * exp(-age / 2000 ms), times 0.7 while a burst of 5 or more is under 3 s old;
/// times the round-trip bonus clamp(200 / max(srtt, 50), 1, 1.03) when there is a smoothed round-trip time.
fn quality_fresh(c: &SrtlaConnection, now: u64) -> f64 {
    let age = now.saturating_sub(c.reconnection.connection_established_ms);
    let naks = c.congestion.nak_count;
    if age < 30_000 {
        return if naks == 0 { 1.1 } else { 0.98 };
    }
    let last = c.congestion.last_nak_time_ms;
    let m = if last != 0 {
        let nak_age = now.saturating_sub(last);
        let mut m = 1.0 - 0.5 * (-(nak_age as f64) / 2000.0).exp();
        if c.congestion.nak_burst_count >= 5 && nak_age < 3000 {
            m *= 0.7;
        }
        m
    } else if naks == 0 {
        1.1
    } else {
        1.0
    };
    let srtt = c.get_smooth_rtt_ms();
    let bonus = if srtt <= 0.0 { 1.0 } else { (200.0 / srtt.max(50.0)).min(1.03).max(1.0) };
    m * bonus
}

/// The multiplier a decision at `now` may use: the value cached before the call while that is under 50 ms old
/// (the documented cache), the freshly computed one otherwise.
fn quality_expected(before: &SrtlaConnection, now: u64) -> f64 {
    let p = before.verif_private();
    if now.saturating_sub(p.quality_last_calculated_ms) < 50 {
        p.quality_multiplier
    } else {
        quality_fresh(before, now)
    }
}

fn over_cap(c: &SrtlaConnection) -> bool {
    if c.cc_target_bps == 0 {
        return false;
    }
    let rtt = c.get_rtt_min_ms();
    let rtt = if rtt.is_finite() && rtt > 0.0 { rtt } else { 1.0 };
    let bdp = (c.cc_target_bps as f64) * (rtt / 1000.0) / 8.0 * 1.5;
    let cap = (bdp / 1316.0).floor().max(1.0).min(i32::MAX as f64) as i32;
    c.in_flight_packets > cap
}

/// The oracle's decision for one reading of "an unconstrained uplink exists".
/// Returns (expected result, scores, scored flags).
fn decide(
    before: &[SrtlaConnection],
    after: &[SrtlaConnection],
    last: Option<usize>,
    quality: bool,
    timeout: u64,
    require_connected: bool,
    now: u64,
) -> (Option<usize>, Vec<f64>, Vec<bool>, bool) {
    let n = before.len();
    let skipped: Vec<bool> = (0..n)
        .map(|i| {
            oracle_timed_out(&before[i], now, timeout)
                || matches!(before[i].phase, LinkPhase::Registering)
                || after[i].is_stall_gated()
        })
        .collect();
    let any_unc = (0..n).any(|i| {
        (!require_connected || before[i].connected)
            && !skipped[i]
            && !before[i].weak
            && !before[i].loss_degraded
            && !over_cap(&before[i])
    });
    let mut scores = vec![f64::NAN; n];
    let mut scored = vec![false; n];
    let mut best: Option<usize> = None;
    let mut best_score = -1.0f64;
    let mut current: Option<f64> = None;
    for i in 0..n {
        if skipped[i] || (any_unc && over_cap(&before[i])) {
            continue;
        }
        scored[i] = true;
        let gate = if any_unc && (before[i].weak || before[i].loss_degraded) { 0.02 } else { 1.0 };
        let base = base_score(&before[i]) as f64 * phase_weight(&before[i]);
        let cap = soft_cap(&before[i]);
        let s = if quality {
            base * quality_expected(&before[i], now) * cap * gate
        } else {
            base * cap * gate
        };
        scores[i] = s;
        if Some(i) == last {
            current = Some(s);
        }
        if s > best_score {
            best_score = s;
            best = Some(i);
        }
    }
    let mut result = best;
    if let Some(l) = last {
        if best != Some(l) {
            if let Some(cur) = current {
                if best_score < cur * 1.10 {
                    result = Some(l);
                }
            }
        }
    }
    (result, scores, scored, any_unc)
}

fn near(a: f64, b: f64) -> bool {
    let d = (a - b).abs();
    d <= 1e-9 * a.abs().max(b.abs()).max(1e-12)
}

#[allow(clippy::too_many_arguments)]
fn judge(
    before: &[SrtlaConnection],
    after: &[SrtlaConnection],
    last: Option<usize>,
    result: Option<usize>,
    quality: bool,
    timeout: u64,
    now: u64,
) -> Result<(), Fail> {
    let n = before.len();
    if result.is_some_and(|r| r >= n) {
        return Err(Fail::new("index-out-of-range", format!("result {result:?} with {n} links")));
    }
    let (exp_a, scores, scored, any_unc) = decide(before, after, last, quality, timeout, true, now);
    // factor ranges on every scored link
    for i in 0..n {
        if !scored[i] {
            continue;
        }
        if quality {
            let q = after[i].verif_private().quality_multiplier;
            if !q.is_finite() || q < Q_MIN - 1e-12 || q > Q_MAX + 1e-12 {
                return Err(Fail::new("quality-factor-out-of-range", format!("link {i}: quality multiplier {q}")));
            }
            let e = quality_expected(&before[i], now);
            if !e.is_finite() || e < Q_MIN - 1e-12 || e > Q_MAX + 1e-12 {
                return Err(Fail::new("MACHINERY", format!("link {i}: the oracle's own quality multiplier {e} is outside the documented range")));
            }
        }
        let c = soft_cap(&before[i]);
        if !(0.1..=1.0).contains(&c) {
            return Err(Fail::new("soft-cap-out-of-range", format!("link {i}: soft-cap factor {c}")));
        }
        if !scores[i].is_finite() {
            return Err(Fail::new("score-non-finite", format!("link {i}: score {}", scores[i])));
        }
    }
    // gate rules stated directly
    if let Some(r) = result {
        if !scored[r] {
            let why = if any_unc && over_cap(&before[r]) {
                "over-cap-link-chosen-while-unconstrained-exists"
            } else {
                "skipped-link-chosen"
            };
            // tolerate only if the alternative reading explains it
            let (exp_b, _, scored_b, _) = decide(before, after, last, quality, timeout, false, now);
            if !(scored_b[r] && exp_b == result) {
                return Err(Fail::new(why, format!("result {r} is a link the scheduler must skip (scores {scores:?}, scored {scored:?})")));
            }
        }
    }
    if result == exp_a {
        return Ok(());
    }
    // other reading of "unconstrained exists" (differs only with a disconnected-but-schedulable link; that is C03's subject)
    let (exp_b, scores_b, scored_b, _) = decide(before, after, last, quality, timeout, false, now);
    if result == exp_b {
        return Ok(());
    }
    // floating-point near-ties
    for (exp, sc, sd) in [(exp_a, &scores, &scored), (exp_b, &scores_b, &scored_b)] {
        if let (Some(r), Some(e)) = (result, exp) {
            if sd[r] && sd[e] {
                if near(sc[r], sc[e]) {
                    return Ok(());
                }
                if let Some(l) = last {
                    if l < n && sd[l] && (r == l || e == l) {
                        let other = if r == l { e } else { r };
                        if near(sc[other], sc[l] * 1.10) {
                            return Ok(());
                        }
                    }
                }
            }
        }
    }
    // classify
    let key = match (result, exp_a, last) {
        (Some(r), Some(e), Some(l)) if l < n && scored[l] && e == l && r != l => "left-previous-link-without-10-percent-gain",
        (Some(r), Some(_), Some(l)) if l < n && scored[l] && r == l => "held-previous-link-despite-10-percent-gain",
        (None, Some(_), _) => "returned-none-with-scored-links",
        _ => "not-the-maximum-score",
    };
    Err(Fail::new(
        key,
        format!("result {result:?}, oracle {exp_a:?}; last {last:?}; scores {scores:?}; scored {scored:?}; unconstrained-exists {any_unc}"),
    ))
}

fn one(
    links: &[SrtlaConnection],
    last: Option<usize>,
    quality: bool,
    guard: bool,
    th: Thresholds,
    timeout: u64,
) -> (Option<usize>, Result<(), Fail>, u64) {
    let c = cfg(SchedulingMode::Enhanced, quality, guard, th, timeout);
    let before: Vec<SrtlaConnection> = links.to_vec();
    let mut v: Vec<SrtlaConnection> = links.to_vec();
    let r = select_connection_idx(&mut v, last, NOW, &c);
    let mut verdict = judge(&before, &v, last, r, quality, timeout, NOW);
    if verdict.is_ok() && quality {
        // (0) the same links 60 ms later, each with one more NAK 5 ms before the decision: every cached multiplier
        // is now over 50 ms old, so the decision has to be the one for the multipliers of *this* instant
        let later = NOW + 60;
        let mut w = v.clone();
        for c in w.iter_mut() {
            c.congestion.nak_count += 1;
            c.congestion.last_nak_time_ms = later - 5;
        }
        let before2 = w.clone();
        crate::util::set_now(later);
        let r2 = select_connection_idx(&mut w, r.or(last), later, &c);
        crate::util::set_now(NOW);
        if let Err(f) = judge(&before2, &w, r.or(last), r2, quality, timeout, later) {
            verdict = Err(Fail::new(&format!("later:{}", f.key), format!("60 ms after a first decision ({r:?}) and one more NAK on every link: {}", f.msg)));
        }
    }
    if verdict.is_ok() {
        // (1) idempotence on the unchanged state
        let mut v2 = v.clone();
        let r2 = select_connection_idx(&mut v2, last, NOW, &c);
        if r2 != r {
            verdict = Err(Fail::new("not-idempotent", format!("same call twice: {r:?} then {r2:?}")));
        } else if r.is_some() {
            let mut v3 = v.clone();
            let r3 = select_connection_idx(&mut v3, r, NOW, &c);
            if r3 != r {
                verdict = Err(Fail::new("oscillates", format!("selected {r:?}; re-selecting with it as previous link gives {r3:?}")));
            }
        }
    }
    let obs = hash_of(&(
        r,
        last,
        v.iter().map(|l| (l.is_stall_gated(), l.weak, l.loss_degraded, over_cap(l), l.connected)).collect::<Vec<_>>(),
        quality,
    ));
    (r, verdict, obs)
}

fn lib1(quick: bool) -> Vec<Spec> {
    let mut v = Vec::new();
    let lives = [Life::Live, Life::Warming, Life::Degraded, Life::LiveDisconnected, Life::RegisteringAfterReset];
    let stalls: &[Stall] = if quick { &[Stall::NoProof, Stall::LatchedStale] } else { &STALL_ALL };
    let rtts: &[u32] = if quick { &[0, 50, 400] } else { &[0, 20, 50, 200, 400, 2000] };
    for life in lives {
        for rx in [RxAge::Fresh, RxAge::AtTimeout] {
            for load in LOAD_ALL {
                for queued in [0u8, 5] {
                    for window in [1000, 20000, 60000] {
                        for stall in stalls {
                            for gate in GATE_ALL {
                                for cc in CC_ALL {
                                    for nak in NAK_ALL {
                                        for rtt in rtts {
                                            for age in [29_999u64, 30_000] {
                                                v.push(Spec { life, rx, load, queued, window, stall: *stall, gate, cc, nak, rtt: *rtt, age });
                                            }
                                        }
                                    }
                                }
                            }
                        }
                    }
                }
            }
        }
    }
    v
}

/// Library for the multi-link products: every attribute value appears, and
/// scores are spread so that equal / near-threshold / zero scores all occur.
fn lib_multi(size: usize) -> Vec<Spec> {
    let c = Spec::clean();
    let mut v = vec![
        c,
        Spec { load: Load::AtMin, ..c },
        Spec { window: 22000, load: Load::AtMin, ..c }, // exactly 1.10 x the previous one's base
        Spec { window: 21999, load: Load::AtMin, ..c }, // just under 1.10 x
        Spec { life: Life::Warming, ..c },
        // gated and freshly NAKed: 2% of 60000 x 0.38 = 460, against 606 x 1.1 of the loaded clean link above
        Spec { gate: Gate::Weak, window: 60000, nak: Nak::Burst, ..c },
        Spec { gate: Gate::Weak, ..c },
        Spec { gate: Gate::LossDegraded, load: Load::AtMin, ..c },
        Spec { cc: Cc::Tiny, load: Load::Huge, ..c },
        Spec { cc: Cc::HugeSaturated, ..c },
        Spec { cc: Cc::HalfUsed, ..c },
        // soft cap just below saturation: the factor must stay at its 0.1 floor (score 2000) ...
        Spec { cc: Cc::At95, ..c },
        Spec { cc: Cc::At999, ..c },
        Spec { cc: Cc::At90, ..c },
        // ... and competitors whose scores (1818, 606) lie between the floored and the un-floored value
        Spec { window: 60000, load: Load::AtMin, ..c },
        Spec { nak: Nak::JustNow, ..c },
        Spec { nak: Nak::Burst, ..c },
        Spec { nak: Nak::Age8000, rtt: 50, ..c },
        Spec { age: 29_999, nak: Nak::OneSecondAgo, ..c },
        Spec { age: 29_999, ..c },
        Spec { rx: RxAge::AtTimeout, ..c },
        Spec { life: Life::LiveDisconnected, ..c },
        Spec { life: Life::LiveDisconnected, nak: Nak::JustNow, ..c },
        Spec { life: Life::RegisteringAfterReset, rx: RxAge::None, ..c },
        Spec { stall: Stall::LatchedStale, load: Load::Huge, ..c },
        Spec { stall: Stall::Pulled, load: Load::AtMin, ..c },
        Spec { stall: Stall::LatchedRecovering, ..c },
        Spec { window: 1000, load: Load::Huge, ..c }, // score 0
        Spec { life: Life::Degraded, gate: Gate::LossDegraded, ..c },
        Spec { queued: 5, ..c },
        Spec { rtt: 400, ..c },
        Spec { rtt: 20, ..c },
        Spec { cc: Cc::Overshoot, load: Load::AtMin, ..c },
        Spec { window: 60000, ..c },
        Spec { window: 60000, gate: Gate::Weak, cc: Cc::Tiny, load: Load::Huge, ..c },
        Spec { life: Life::Warming, window: 25000, ..c }, // 0.8 x 25000 == 20000: ties a clean live link
        Spec { nak: Nak::Age2900, ..c },
        Spec { nak: Nak::Age3000, ..c },
        Spec { nak: Nak::Burst4, ..c },
        Spec { nak: Nak::Burst12Old, ..c },
        Spec { life: Life::NeverEstablishedInGrace, rx: RxAge::None, ..c },
        Spec { stall: Stall::ProofStale, load: Load::AtMin, ..c },
        Spec { stall: Stall::ProofFresh, load: Load::Huge, ..c },
        Spec { gate: Gate::Weak, window: 60000, ..c },
        Spec { cc: Cc::Tiny, load: Load::Huge, gate: Gate::Weak, ..c },
    ];
    v.truncate(size);
    v
}

/// 729-state product library for the two-link sweep.
fn lib_729() -> Vec<Spec> {
    let c = Spec::clean();
    let mut v = Vec::new();
    for life in [Life::Live, Life::Warming, Life::LiveDisconnected] {
        for load in [Load::Zero, Load::AtMin, Load::Huge] {
            for window in [20000, 22000, 21999] {
                for gate in GATE_ALL {
                    for cc in [Cc::Zero, Cc::Tiny, Cc::HalfUsed] {
                        for nak in [Nak::Clean, Nak::JustNow, Nak::Burst] {
                            v.push(Spec { life, load, window, gate, cc, nak, ..c });
                        }
                    }
                }
            }
        }
    }
    v
}

struct Acc {
    calls: AtomicU64,
    switched: AtomicU64,
    held: AtomicU64,
    distinct: Mutex<std::collections::HashSet<u64>>,
    fails: Mutex<Vec<Violation>>,
    fail_n: Mutex<std::collections::BTreeMap<String, u64>>,
}

fn record(acc: &Acc, specs: &[&Spec], quality: bool, guard: bool, th: Thresholds, timeout: u64, last: Option<usize>, f: Fail) {
    *acc.fail_n.lock().unwrap().entry(f.key.clone()).or_insert(0) += 1;
    let mut v = acc.fails.lock().unwrap();
    if v.iter().filter(|x| x.key == f.key).count() < 3 {
        v.push(Violation {
            key: f.key.clone(),
            message: format!(
                "{} | quality={quality} guard={guard} thresholds={th:?} timeout={timeout} last={last:?} links: {}",
                f.msg,
                specs.iter().map(|s| describe(s)).collect::<Vec<_>>().join(" | ")
            ),
            replay: json!({
                "specs": specs.iter().map(|s| spec_to_json(s)).collect::<Vec<_>>(),
                "quality": quality, "guard": guard,
                "min_in_flight": th.min_in_flight, "ceiling_ms": th.ceiling_ms.to_string(),
                "timeout": timeout, "last": last,
            }),
        });
    }
}

fn sweep(acc: &Acc, n: usize, lib: &[Spec], quick: bool) {
    let ths: Vec<Thresholds> = if quick { vec![THRESHOLDS[0]] } else { vec![THRESHOLDS[0], THRESHOLDS[1]] };
    let outer: Vec<(Thresholds, u64)> = ths.iter().map(|t| (*t, 5000u64)).collect();
    let m = lib.len();
    let jobs = outer.len() * m;
    par_map(jobs, 16, |j| {
        let (th, timeout) = outer[j / m];
        let first = j % m;
        crate::util::set_now(NOW);
        let rtts = RttLib::new(NOW);
        let built: Vec<SrtlaConnection> = if n > 1 {
            lib.iter().map(|s| build(0, s, th, timeout, NOW, &rtts)).collect()
        } else {
            Vec::new()
        };
        let mut local: Vec<u64> = Vec::new();
        let mut idx = vec![0usize; n];
        idx[0] = first;
        loop {
            let specs: Vec<&Spec> = idx.iter().map(|i| &lib[*i]).collect();
            let links: Vec<SrtlaConnection> = if n == 1 {
                vec![build(0, &lib[first], th, timeout, NOW, &rtts)]
            } else {
                idx.iter()
                    .enumerate()
                    .map(|(pos, i)| {
                        let mut c = built[*i].clone();
                        c.conn_id = 1000 + pos as u64;
                        c
                    })
                    .collect()
            };
            for quality in [true, false] {
                for guard in [true, false] {
                    let mut lasts = vec![None];
                    for i in 0..n {
                        lasts.push(Some(i));
                    }
                    lasts.push(Some(n + 2));
                    for last in lasts {
                        let (r, verdict, obs) = one(&links, last, quality, guard, th, timeout);
                        acc.calls.fetch_add(1, Ordering::Relaxed);
                        if let (Some(l), Some(r)) = (last, r) {
                            if l < n {
                                if l == r {
                                    acc.held.fetch_add(1, Ordering::Relaxed);
                                } else {
                                    acc.switched.fetch_add(1, Ordering::Relaxed);
                                }
                            }
                        }
                        local.push(obs);
                        if let Err(f) = verdict {
                            record(acc, &specs, quality, guard, th, timeout, last, f);
                        }
                    }
                }
            }
            if local.len() > 8192 {
                acc.distinct.lock().unwrap().extend(local.drain(..));
            }
            let mut d = 1;
            loop {
                if d >= n {
                    break;
                }
                idx[d] += 1;
                if idx[d] < m {
                    break;
                }
                idx[d] = 0;
                d += 1;
            }
            if d >= n {
                break;
            }
        }
        acc.distinct.lock().unwrap().extend(local.drain(..));
    });
}

pub fn run(tier: Tier) -> Report {
    let mut rep = Report::new();
    let acc = Acc {
        calls: AtomicU64::new(0),
        switched: AtomicU64::new(0),
        held: AtomicU64::new(0),
        distinct: Mutex::new(Default::default()),
        fails: Mutex::new(Vec::new()),
        fail_n: Mutex::new(Default::default()),
    };
    let q = tier.is_quick();
    let mut sweeps = Vec::new();
    let mut do_sweep = |n: usize, lib: &[Spec], name: &str| {
        let t = std::time::Instant::now();
        let before = acc.calls.load(Ordering::Relaxed);
        sweep(&acc, n, lib, q);
        sweeps.push(json!({"links": n, "library": name, "per_link_states": lib.len(),
            "selector_calls_judged": acc.calls.load(Ordering::Relaxed) - before, "wall_s": t.elapsed().as_secs_f64()}));
    };
    let l1 = lib1(q);
    do_sweep(1, &l1, "full per-link product");
    let lm = lib_multi(45);
    do_sweep(2, &lm, "Lib45^2");
    do_sweep(2, &lib_729(), "Lib729^2 (life x load x window x gate x cc x nak)");
    if q {
        do_sweep(3, &lib_multi(37), "Lib37^3");
    } else {
        do_sweep(3, &lm, "Lib45^3");
        do_sweep(4, &lib_multi(25), "Lib25^4");
    }
    let calls = acc.calls.load(Ordering::Relaxed);
    rep.states = acc.distinct.lock().unwrap().len() as u64;
    rep.transitions = calls * 3;
    rep.traces = calls;
    rep.set("sweeps", json!(sweeps));
    rep.set("decisions_judged", json!(calls));
    rep.set("decisions_that_left_the_previous_link", json!(acc.switched.load(Ordering::Relaxed)));
    rep.set("decisions_that_kept_the_previous_link", json!(acc.held.load(Ordering::Relaxed)));
    rep.samples.push(json!({"links": [spec_to_json(&lm[1]), spec_to_json(&lm[2])], "config": "quality on, guard on, (32,3000), last Some(0): second link has exactly 1.10 x the first one's base score"}));
    rep.samples.push(json!({"links": [spec_to_json(&lm[6]), spec_to_json(&lm[8])], "config": "weak link vs over-cap link, no unconstrained link"}));
    rep.set("oracle", json!("independent per-link score base x phase weight {0.8 warming} x quality (the documented formula written out again, evaluated at the instant of the decision unless the value cached before the call is under 50 ms old; range-checked [0.35, 1.1x1.03]) x soft cap clamp((t-m)/t,0.1,1) x 0.02 gate iff (weak or loss-degraded) and an unconstrained link exists; skipped = timed out / registering / stall-gated / over its in-flight cap while an unconstrained link exists; decision = first maximum, kept on the previous link unless it was skipped or best >= 1.10 x its score; plus idempotence (same call twice; re-select with the result as previous link)"));
    rep.set("later_decision", json!("after every judged decision with quality scoring on, the same links are judged again 60 ms later with one more NAK on each: the cached multipliers are then stale and the decision must follow the fresh ones"));
    rep.assume("in states containing a disconnected link with a schedulable phase the oracle accepts a decision consistent with either reading of 'an unconstrained uplink exists' (with or without requiring connected); that difference is judged by C03");
    rep.assume("floating point: oracle and code are compared exactly; a mismatch is tolerated only when the competing scores differ by less than 1e-9 relative");
    for v in acc.fails.lock().unwrap().drain(..) {
        rep.violations.push(v);
    }
    for (k, n) in acc.fail_n.lock().unwrap().iter() {
        rep.count_violation(k, *n);
    }
    rep
}

pub fn replay(v: &Value) -> Result<(), String> {
    let specs: Vec<Spec> = v["specs"]
        .as_array()
        .ok_or("MACHINERY: no specs")?
        .iter()
        .map(|s| spec_from_json(s).ok_or("MACHINERY: bad spec"))
        .collect::<Result<_, _>>()?;
    let th = Thresholds {
        min_in_flight: v["min_in_flight"].as_i64().unwrap_or(32) as i32,
        ceiling_ms: v["ceiling_ms"].as_str().and_then(|s| s.parse().ok()).unwrap_or(3000),
    };
    let timeout = v["timeout"].as_u64().unwrap_or(5000);
    let last = v["last"].as_u64().map(|x| x as usize);
    crate::util::set_now(NOW);
    let rtts = RttLib::new(NOW);
    let links: Vec<SrtlaConnection> = specs.iter().enumerate().map(|(i, s)| build(i, s, th, timeout, NOW, &rtts)).collect();
    let (_, verdict, _) = one(&links, last, v["quality"].as_bool().unwrap_or(true), v["guard"].as_bool().unwrap_or(true), th, timeout);
    verdict.map_err(|f| format!("[{}] {}", f.key, f.msg))
}
