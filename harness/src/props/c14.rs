//! C14 — keepalives flow on every live uplink and RTT comes only from echoes.
//!
//! (A) world + history exploration of the housekeeping arm with a cadence /
//!     frame-content monitor on the receiver-side sockets;
//! (B) history exploration of the real RTT tracker's echo sample filter and
//!     exhaustive sample sequences through the real Kalman smoother.

use std::sync::Arc;
use std::time::Duration;

use serde_json::{Value, json};
use srtla_core::connection::{LinkPhase, SrtlaConnection};
use srtla_send::config::DynamicConfig;

use crate::engine::{self, Fail, Limits, Model, Plan};
use crate::evidence::{Report, Tier};
use crate::sel::oracle_timed_out;
use crate::util::{T0, live_conn, set_now, srt_data};
use crate::world::*;

// ---------------------------------------------------------------------------
// (A) cadence and frame content

#[derive(Clone, Copy, Debug, PartialEq)]
enum Ev {
    Hk(u64),
    /// echo of the last keepalive of link i, delayed by d ms
    Echo(usize, u64),
    EchoFuture(usize),
    EchoZero(usize),
    EchoShort(usize),
    Burst,
    Flush,
    Nak(usize),
    Reg3(usize),
    Fclose(usize),
    Adv(u64),
}

#[derive(Clone)]
pub struct St {
    w: World,
    last_ka: Vec<Option<Vec<u8>>>,
    misses: Vec<u32>,
    next_seq: u32,
    /// the monitor's own notion of an outstanding probe: a keepalive went out on the link since
    /// its last reset and since the last sample (a superset of what the code arms)
    probe_out: Vec<bool>,
}

pub struct MA {
    n: usize,
    events: Vec<Ev>,
    inits: Vec<(&'static str, u8)>,
    name: String,
}

impl MA {
    fn new(n: usize, reduced: bool) -> Self {
        let mut events = vec![Ev::Hk(1000), Ev::Hk(990), Ev::Echo(0, 20), Ev::Hk(2000), Ev::Burst, Ev::Reg3(1)];
        if !reduced {
            events.extend([Ev::Hk(1010), Ev::Echo(1, 20), Ev::Echo(0, 10_500), Ev::EchoFuture(0), Ev::EchoZero(0), Ev::EchoShort(0), Ev::Nak(0), Ev::Fclose(1), Ev::Adv(5000), Ev::Flush]);
        }
        Self {
            n,
            events,
            inits: vec![
                ("S1 established (warming)", 0),
                ("S2 live", 1),
                ("S5 link 1 timed out", 2),
                ("S6 live, probe armed on both links, then link 1 soft-reset by a failed batch send (receiver port closed and reopened)", 3),
            ],
            name: format!("cadence links={n} alphabet={}", if reduced { "reduced" } else { "full" }),
        }
    }
}

fn be32(b: &[u8], o: usize) -> u32 {
    u32::from_be_bytes([b[o], b[o + 1], b[o + 2], b[o + 3]])
}

impl Model for MA {
    type S = St;
    type W = Env;
    fn worker(&self) -> Env {
        Env::new()
    }
    fn n_inits(&self) -> usize {
        self.inits.len()
    }
    fn init_name(&self, i: usize) -> String {
        self.inits[i].0.to_string()
    }
    fn init(&self, env: &mut Env, i: usize) -> St {
        let (w, mut rec) = established(env, self.n, DynamicConfig::new(), T0);
        let mut s = St { w, last_ka: vec![None; self.n], misses: vec![0; self.n], next_seq: 1000, probe_out: vec![false; self.n] };
        let kind = self.inits[i].1;
        if kind >= 1 {
            for _ in 0..8 {
                if s.w.connections.iter().all(|c| matches!(c.phase, LinkPhase::Live)) {
                    break;
                }
                s.w.advance(1000);
                let o = s.w.arm_housekeeping(env);
                for (l, b) in &o.wire {
                    if pkt_type(b) == Some(0x9000) && *l < self.n {
                        s.last_ka[*l] = Some(b.clone());
                    }
                }
                let r = rec.replies(&o.wire);
                s.w.advance(20);
                deliver(env, &mut s.w, &r);
            }
        }
        if kind == 2 {
            for _ in 0..7 {
                s.w.advance(1000);
                let o = s.w.arm_housekeeping(env);
                let r: Vec<(usize, Vec<u8>)> = rec.replies(&o.wire).into_iter().filter(|(l, _)| *l != 1).collect();
                s.w.advance(20);
                deliver(env, &mut s.w, &r);
            }
            assert!(!s.w.connections[1].connected);
        }
        if kind == 3 {
            // four passes without echoes: the last keepalive arms a probe (RTT sample older than 3 s)
            for _ in 0..4 {
                if let Err(f) = self.step_ev(env, &mut s, Ev::Hk(1000)) { engine::prefix_fail(f); }
            }
            assert!(s.w.connections[1].rtt.waiting_for_keepalive_response, "scripted state: no probe armed on link 1");
            if let Err(f) = self.step_ev(env, &mut s, Ev::Fclose(1)) { engine::prefix_fail(f); }
            // only a threshold flush that fails resets the link (the periodic flush just logs)
            for _ in 0..40 {
                if !s.w.connections[1].connected {
                    break;
                }
                if let Err(f) = self.step_ev(env, &mut s, Ev::Burst) { engine::prefix_fail(f); }
                if std::env::var("VERIF_TRACE").is_ok() {
                    eprintln!("TRACE S6 burst: {:?}", s.w.connections.iter().map(|c| (c.connected, c.in_flight_packets, c.window, c.has_queued_packets(), c.is_stall_gated())).collect::<Vec<_>>());
                }
            }
            assert!(!s.w.connections[1].connected, "scripted state: link 1 was not reset by the failed sends");
            assert!(!s.probe_out[1], "scripted state: the monitor did not see the reset");
            s.w.rx_open[1] = true;
        }
        s
    }
    fn n_events(&self) -> usize {
        self.events.len()
    }
    fn event_name(&self, e: usize) -> String {
        format!("{:?}", self.events[e])
    }
    fn enabled(&self, s: &St, e: usize) -> bool {
        match self.events[e] {
            Ev::Fclose(l) => s.w.rx_open[l],
            _ => true,
        }
    }
    fn step(&self, env: &mut Env, s: &mut St, e: usize) -> Result<(), Fail> {
        self.step_ev(env, s, self.events[e])
    }
    fn fingerprint(&self, s: &St) -> u64 {
        let v: Vec<(bool, u32, bool, u64, bool)> = s
            .w
            .connections
            .iter()
            .enumerate()
            .map(|(l, c)| (c.connected, s.misses[l], c.rtt.waiting_for_keepalive_response, c.get_smooth_rtt_ms().to_bits(), s.probe_out[l]))
            .collect();
        engine::hash_of(&v)
    }
}

impl MA {
    fn step_ev(&self, env: &mut Env, s: &mut St, ev: Ev) -> Result<(), Fail> {
        let pre: Vec<(bool, bool, u64)> = s.w.connections.iter().map(|c| (c.connected, c.last_received.is_some(), c.reconnection.last_reconnect_attempt_ms)).collect();
        let r = self.step_inner(env, s, ev);
        // a reset (soft: the receive stamp is wiped; full: a reconnect attempt is recorded) cancels the probe
        for (l, c) in s.w.connections.iter().enumerate() {
            if l < pre.len() && l < s.probe_out.len() {
                let soft = (pre[l].0 || pre[l].1) && !c.connected && c.last_received.is_none();
                let full = c.reconnection.last_reconnect_attempt_ms != pre[l].2;
                if soft || full {
                    s.probe_out[l] = false;
                }
            }
        }
        r
    }
    fn step_inner(&self, env: &mut Env, s: &mut St, ev: Ev) -> Result<(), Fail> {
        let n = self.n;
        match ev {
            Ev::Hk(dt) => {
                s.w.advance(dt);
                let now = s.w.now;
                let timeout = s.w.config.snapshot().conn_timeout_ms;
                let pre: Vec<SrtlaConnection> = s.w.connections.iter().cloned().collect();
                let out = s.w.arm_housekeeping(env);
                let mut ka_n = vec![0u32; n];
                for (l, b) in &out.wire {
                    let l = *l;
                    if l >= n || pkt_type(b) != Some(0x9000) {
                        continue;
                    }
                    ka_n[l] += 1;
                    s.last_ka[l] = Some(b.clone());
                    s.probe_out[l] = true;
                    let c = &pre[l];
                    let ctx = |what: &str| format!("{what}: keepalive on link {l} at +{} ms: {:02x?}", now - T0, b);
                    if b.len() != 38 {
                        return Err(Fail::new("keepalive-not-38-bytes", ctx(&format!("{} bytes", b.len()))));
                    }
                    let ts = u64::from_be_bytes(b[2..10].try_into().unwrap());
                    if ts != now {
                        return Err(Fail::new("keepalive-timestamp", ctx(&format!("timestamp {ts}, send time {now}"))));
                    }
                    if b[10..14] != [0xc0, 0x1f, 0x00, 0x01] {
                        return Err(Fail::new("keepalive-magic-or-version", ctx("magic/version")));
                    }
                    let want = [
                        c.conn_id as u32,
                        c.window as u32,
                        c.in_flight_packets as u32,
                        c.get_smooth_rtt_ms().floor() as u32,
                        c.congestion.nak_count as u32,
                        (c.bitrate.current_bitrate_bps / 8.0).floor() as u32,
                    ];
                    let got = [be32(b, 14), be32(b, 18), be32(b, 22), be32(b, 26), be32(b, 30), be32(b, 34)];
                    if got != want {
                        return Err(Fail::new(
                            "keepalive-telemetry",
                            ctx(&format!("(conn id, window, in-flight, rtt, nak count, bytes/s) = {got:?}, the link's values are {want:?}")),
                        ));
                    }
                    if !c.connected {
                        return Err(Fail::new("keepalive-on-disconnected-link", ctx("link was not connected")));
                    }
                }
                for l in 0..n {
                    let live = pre[l].connected && !oracle_timed_out(&pre[l], now, timeout);
                    if !live {
                        s.misses[l] = 0;
                        continue;
                    }
                    // a closed receiver socket hides the wire: fall back to the link's own send stamp
                    let sent = ka_n[l] > 0 || (!s.w.rx_open[l] && s.w.connections[l].last_keepalive_sent == Some(now));
                    if sent {
                        s.probe_out[l] = true;
                    }
                    if !sent {
                        s.misses[l] += 1;
                        if s.misses[l] >= 2 {
                            return Err(Fail::new(
                                "keepalive-gap-over-two-periods",
                                format!("link {l}: connected and not timed out, but two consecutive housekeeping passes (now +{} ms) sent no keepalive on it", now - T0),
                            ));
                        }
                    } else {
                        s.misses[l] = 0;
                    }
                }
            }
            Ev::Echo(l, d) => {
                s.w.advance(d);
                if let Some(k) = s.last_ka[l].clone() {
                    self.echo(env, s, l, &k)?;
                }
            }
            Ev::EchoFuture(l) => {
                s.w.advance(5);
                let mut k = vec![0x90u8, 0x00];
                k.extend_from_slice(&(s.w.now + 5).to_be_bytes());
                self.echo(env, s, l, &k)?;
            }
            Ev::EchoZero(l) => {
                s.w.advance(5);
                let mut k = vec![0x90u8, 0x00];
                k.extend_from_slice(&0u64.to_be_bytes());
                self.echo(env, s, l, &k)?;
            }
            Ev::EchoShort(l) => {
                s.w.advance(5);
                if let Some(k) = s.last_ka[l].clone() {
                    self.echo(env, s, l, &k[..9])?;
                }
            }
            Ev::Burst => {
                for _ in 0..16 {
                    s.w.advance(1);
                    let seq = s.next_seq;
                    s.next_seq += 1;
                    s.w.arm_client(env, &srt_data(seq, false, seq, 188));
                }
                // no flush tick: housekeeping may find datagrams still queued
            }
            Ev::Flush => {
                s.w.advance(15);
                s.w.arm_flush(env);
            }
            Ev::Nak(l) => {
                s.w.advance(1);
                if let Some(q) = s.w.connections[l].packet_log.keys().copied().min() {
                    let mut p = vec![0x80u8, 0x03, 0, 0];
                    p.extend_from_slice(&(q as u32).to_be_bytes());
                    s.w.arm_uplink(env, l, &p);
                }
            }
            Ev::Reg3(l) => {
                s.w.advance(1);
                s.w.arm_uplink(env, l, &[0x92, 0x02]);
            }
            Ev::Fclose(l) => s.w.rx_open[l] = false,
            Ev::Adv(dt) => s.w.advance(dt),
        }
        Ok(())
    }
    /// deliver an echo and judge the sample filter on the real shell path
    fn echo(&self, env: &mut Env, s: &mut St, l: usize, k: &[u8]) -> Result<(), Fail> {
        let now = s.w.now;
        let c = &s.w.connections[l];
        let waiting = c.rtt.waiting_for_keepalive_response;
        let pre_meas = c.rtt.last_rtt_measurement_ms;
        let pre_kal = c.rtt.kalman_rtt.value().to_bits();
        s.w.arm_uplink(env, l, k);
        let c = &s.w.connections[l];
        let sampled = c.rtt.last_rtt_measurement_ms != pre_meas || c.rtt.kalman_rtt.value().to_bits() != pre_kal;
        let should = if k.len() >= 10 {
            let ts = u64::from_be_bytes(k[2..10].try_into().unwrap());
            waiting && ts < now && now - ts <= 10_000
        } else {
            false
        };
        if sampled && !should {
            return Err(Fail::new(
                "rtt-sample-from-invalid-echo",
                format!("link {l}: an RTT sample was taken from an echo of {} bytes (probe outstanding {waiting}, now {now})", k.len()),
            ));
        }
        if sampled && !s.probe_out[l] {
            return Err(Fail::new(
                "rtt-sample-without-outstanding-probe",
                format!("link {l}: an RTT sample was taken at +{} ms although no keepalive has gone out on the link since its last reset / last sample (the code's own flag said outstanding = {waiting})", now - T0),
            ));
        }
        if sampled {
            s.probe_out[l] = false;
        }
        let c = &s.w.connections[l];
        if should && c.rtt.last_rtt_measurement_ms != now {
            return Err(Fail::new("rtt-sample-not-taken", format!("link {l}: valid echo while a probe was outstanding took no sample")));
        }
        let r = c.get_smooth_rtt_ms();
        if !r.is_finite() || r < 0.0 {
            return Err(Fail::new("smoothed-rtt-invalid", format!("link {l}: smoothed RTT {r}")));
        }
        Ok(())
    }
}

// ---------------------------------------------------------------------------
// (B) the echo sample filter and the smoother, pure core

#[derive(Clone, Copy, Debug, PartialEq)]
enum Eb {
    Arm,
    /// echo with ts = now - d  (d < 0: future)
    Echo(i64),
    EchoZeroTs,
    Truncated,
    Trailing,
    Reset,
    Adv(u64),
}

#[derive(Clone)]
pub struct Sb {
    now: u64,
    c: SrtlaConnection,
    samples: u32,
}

pub struct MB {
    events: Vec<Eb>,
}

impl MB {
    fn new() -> Self {
        Self {
            events: vec![Eb::Arm, Eb::Echo(20), Eb::Echo(0), Eb::Echo(1), Eb::Echo(10_000), Eb::Echo(10_001), Eb::Echo(-5), Eb::EchoZeroTs, Eb::Truncated, Eb::Trailing, Eb::Reset, Eb::Adv(3001)],
        }
    }
}

impl Model for MB {
    type S = Sb;
    type W = ();
    fn worker(&self) {}
    fn n_inits(&self) -> usize {
        1
    }
    fn init_name(&self, _i: usize) -> String {
        "live link, no RTT yet".into()
    }
    fn init(&self, _w: &mut (), _i: usize) -> Sb {
        set_now(T0);
        Sb { now: T0, c: live_conn(0, T0), samples: 0 }
    }
    fn n_events(&self) -> usize {
        self.events.len()
    }
    fn event_name(&self, e: usize) -> String {
        format!("{:?}", self.events[e])
    }
    fn step(&self, _w: &mut (), s: &mut Sb, e: usize) -> Result<(), Fail> {
        let ev = self.events[e];
        s.now += 7;
        let now = s.now;
        let echo = |c: &mut SrtlaConnection, bytes: &[u8]| -> (bool, Option<u64>) {
            let waiting = c.rtt.waiting_for_keepalive_response;
            let r = c.rtt.handle_keepalive_response(bytes, "l", now);
            (waiting, r)
        };
        let (waiting, got, ts, len): (bool, Option<u64>, u64, usize) = match ev {
            Eb::Arm => {
                // what housekeeping does: build a keepalive (arms a probe when one is due)
                let _ = s.c.keepalive_packet(now);
                return Ok(());
            }
            Eb::Adv(dt) => {
                s.now += dt;
                return Ok(());
            }
            Eb::Reset => {
                s.c.reset_for_reconnect(now);
                s.c.connected = true;
                s.c.reconnection.connection_established_ms = now;
                return Ok(());
            }
            Eb::Echo(d) => {
                let ts = (now as i64 - d) as u64;
                let mut k = vec![0x90u8, 0x00];
                k.extend_from_slice(&ts.to_be_bytes());
                let (w, r) = echo(&mut s.c, &k);
                (w, r, ts, 10)
            }
            Eb::EchoZeroTs => {
                let mut k = vec![0x90u8, 0x00];
                k.extend_from_slice(&0u64.to_be_bytes());
                let (w, r) = echo(&mut s.c, &k);
                (w, r, 0, 10)
            }
            Eb::Truncated => {
                let ts = now - 20;
                let mut k = vec![0x90u8, 0x00];
                k.extend_from_slice(&ts.to_be_bytes());
                let (w, r) = echo(&mut s.c, &k[..9]);
                (w, r, ts, 9)
            }
            Eb::Trailing => {
                let ts = now - 20;
                let mut k = vec![0x90u8, 0x00];
                k.extend_from_slice(&ts.to_be_bytes());
                k.extend_from_slice(&[0xde; 40]);
                let (w, r) = echo(&mut s.c, &k);
                (w, r, ts, 50)
            }
        };
        let should = waiting && len >= 10 && ts < now && now - ts <= 10_000;
        if got.is_some() != should {
            return Err(Fail::new(
                if got.is_some() { "rtt-sample-from-invalid-echo" } else { "rtt-sample-not-taken" },
                format!("{ev:?}: probe outstanding {waiting}, len {len}, now-ts {}: sample taken = {:?}", now as i128 - ts as i128, got),
            ));
        }
        if let Some(r) = got {
            if r != now - ts {
                return Err(Fail::new("rtt-sample-value", format!("{ev:?}: sample {r}, now-ts {}", now - ts)));
            }
            s.samples += 1;
        }
        let r = s.c.get_smooth_rtt_ms();
        if !r.is_finite() || r < 0.0 {
            return Err(Fail::new("smoothed-rtt-invalid", format!("{ev:?}: smoothed RTT {r}")));
        }
        Ok(())
    }
    fn fingerprint(&self, s: &Sb) -> u64 {
        engine::hash_of(&(s.c.rtt.waiting_for_keepalive_response, s.samples, s.c.get_smooth_rtt_ms().to_bits(), s.now - s.c.rtt.last_rtt_measurement_ms.min(s.now)))
    }
}

/// all sample sequences over {1,2,50,9999,10000}^<=len through the real tracker
fn smoother_sweep(len: usize) -> (u64, Option<String>) {
    let vals = [1u64, 2, 50, 9_999, 10_000];
    let mut n = 0u64;
    let mut bad = None;
    fn rec(c: &SrtlaConnection, depth: usize, len: usize, vals: &[u64], n: &mut u64, bad: &mut Option<String>, path: &mut Vec<u64>) {
        if depth == len || bad.is_some() {
            return;
        }
        for v in vals {
            let mut c2 = c.clone();
            c2.rtt.update_estimate(*v, T0 + depth as u64);
            *n += 1;
            path.push(*v);
            let r = c2.get_smooth_rtt_ms();
            if !r.is_finite() || r < 0.0 || !c2.get_rtt_min_ms().is_finite() || !c2.get_rtt_velocity().is_finite() {
                *bad = Some(format!("samples {path:?}: smoothed RTT {r}, min {}, velocity {}", c2.get_rtt_min_ms(), c2.get_rtt_velocity()));
                return;
            }
            rec(&c2, depth + 1, len, vals, n, bad, path);
            path.pop();
        }
    }
    let c = live_conn(0, T0);
    rec(&c, 0, len, &vals, &mut n, &mut bad, &mut Vec::new());
    (n, bad)
}

impl MA {
    /// Keep only the start states whose kind is listed (the soft-reset state lives in a world with
    /// socket faults, where every step pays for extra barrier round trips).
    fn only(mut self, kinds: &[u8]) -> Self {
        self.inits.retain(|i| kinds.contains(&i.1));
        self.name = format!("{} starts={:?}", self.name, kinds);
        self
    }
}

/// Default symbol cycle "housekeeping pass, echo on link 0, echo on link 1": the links stay alive, so a long
/// path is a long stretch of keepalive cadence (an all-housekeeping default lets every link time out after
/// 5 s and spends the rest of the path re-creating sockets).
fn alive_default(m: &MA) -> Arc<dyn Fn(usize) -> usize + Send + Sync> {
    let find = |ev: Ev| m.events.iter().position(|e| *e == ev).unwrap_or(0);
    let cyc = [find(Ev::Hk(1000)), find(Ev::Echo(0, 20)), find(Ev::Echo(1, 20))];
    Arc::new(move |pos| cyc[pos % 3])
}

fn models_a(tier: Tier) -> Vec<(String, Arc<MA>, Vec<Plan>)> {
    let mut out = Vec::new();
    if tier.is_quick() {
        let m = Arc::new(MA::new(2, true));
        out.push((m.name.clone(), m, vec![Plan::Full { depth: 5 }]));
        let m = Arc::new(MA::new(2, false));
        let alive = alive_default(&m);
        out.push((
            m.name.clone(),
            m,
            vec![Plan::Full { depth: 3 }, Plan::Dev { k: 1, depth: 40, default: Arc::new(|_| 0) }, Plan::Dev { k: 2, depth: 12, default: Arc::new(|_| 0) }, Plan::Dev { k: 2, depth: 24, default: alive }],
        ));
    } else {
        let m = Arc::new(MA::new(2, true).only(&[0, 1, 2]));
        out.push((m.name.clone(), m, vec![Plan::Full { depth: 7 }]));
        let m = Arc::new(MA::new(2, true).only(&[3]));
        out.push((m.name.clone(), m, vec![Plan::Full { depth: 5 }]));
        let m = Arc::new(MA::new(2, false).only(&[0, 1, 2]));
        let alive = alive_default(&m);
        out.push((m.name.clone(), m, vec![Plan::Full { depth: 5 }, Plan::Dev { k: 2, depth: 30, default: Arc::new(|_| 0) }, Plan::Dev { k: 2, depth: 90, default: alive.clone() }, Plan::Dev { k: 3, depth: 36, default: alive }]));
        let m = Arc::new(MA::new(2, false).only(&[3]));
        out.push((m.name.clone(), m, vec![Plan::Full { depth: 4 }, Plan::Dev { k: 2, depth: 24, default: Arc::new(|_| 0) }]));
        let m = Arc::new(MA::new(4, false).only(&[0, 1, 2]));
        out.push((m.name.clone(), m, vec![Plan::Full { depth: 4 }]));
    }
    out
}

pub fn run(tier: Tier) -> Report {
    let mut rep = Report::new();
    crate::realx::run_for(&mut rep, "C14", tier.is_quick());
    if let Err(e) = glue_fingerprint() {
        rep.machinery_errors.push(format!("{e} (the mirrored explorations were skipped; the real-loop explorations above were run)"));
        return rep;
    }
    let lim = Limits {
        wall: Duration::from_secs(if tier.is_quick() { 40 } else { 2400 }),
        ..Default::default()
    };
    for (label, m, plans) in models_a(tier) {
        for plan in plans {
            let ex = engine::explore(&*m, &plan, &lim);
            engine::fold(&mut rep, &*m, &format!("{label} {}", plan.describe()), &plan, ex);
        }
        rep.set(&format!("alphabet[{label}]"), json!((0..m.n_events()).map(|e| m.event_name(e)).collect::<Vec<_>>()));
    }
    let mb = Arc::new(MB::new());
    let plan = Plan::Full { depth: if tier.is_quick() { 6 } else { 8 } };
    let ex = engine::explore(&*mb, &plan, &lim);
    engine::fold(&mut rep, &*mb, &format!("sample-filter {}", plan.describe()), &plan, ex);
    rep.set("alphabet[sample-filter]", json!((0..mb.n_events()).map(|e| mb.event_name(e)).collect::<Vec<_>>()));
    let (n, bad) = smoother_sweep(if tier.is_quick() { 8 } else { 10 });
    rep.transitions += n;
    rep.traces += n;
    rep.set("smoother_sample_sequences_steps", json!(n));
    if let Some(b) = bad {
        rep.add_violation(crate::evidence::Violation {
            key: "smoothed-rtt-invalid".into(),
            message: b.clone(),
            replay: json!({"exploration": "smoother", "detail": b}),
        });
    }
    rep.set("oracle", json!("(A) per link, over housekeeping passes in which it was connected and not timed out (own rule on the pre-pass state): never two consecutive passes without a keepalive on its wire; every keepalive is 38 bytes, type 9000, bytes 2..10 = the send time, magic c01f, version 1, and (conn id low 32 bits, window, in-flight, floor(smoothed RTT), loss count, floor(bit rate/8)) equal the link's values on the pre-pass clone; never on a disconnected link. (B') a sample is only ever taken while the monitor's own probe flag is set (a keepalive went out on the link since its last soft or full reset and since the last sample); (B) an echo yields a sample iff a probe was outstanding, the frame has >= 10 bytes and 0 < now - ts <= 10000, and the sample equals now - ts; the smoothed RTT is finite and >= 0 after every event and after every sample sequence over {1,2,50,9999,10000}^<=N"));
    rep.assume("housekeeping spacing menu {990, 1000, 1010, 2000} ms stands for timer jitter; 'two housekeeping periods' is judged as 'two consecutive passes without a keepalive'");
    rep.assume("the select! glue is mirrored (world.rs) and bound by a call-order + token digest fingerprint");
    rep
}

pub fn replay(v: &Value) -> Result<(), String> {
    if let Some(r) = crate::realx::replay_for("C14", v) {
        return r;
    }
    let label = v["exploration"].as_str().unwrap_or("");
    if label.starts_with("sample-filter") {
        return engine::replay_json(&[("sample-filter".to_string(), Arc::new(MB::new()))], v);
    }
    if label.starts_with("smoother") {
        let (_, bad) = smoother_sweep(10);
        return match bad {
            None => Ok(()),
            Some(b) => Err(b),
        };
    }
    let mut ms = Vec::new();
    for tier in [Tier::Quick, Tier::Thorough] {
        for (l, m, _) in models_a(tier) {
            ms.push((l, m));
        }
    }
    engine::replay_json(&ms, v)
}
