//! C05 — a NAK is charged once, and only to a link that carried the packet.
//!
//! History exploration of the real NAK path (`process_connection_events` ->
//! `attribute_nak` -> `SequenceTracker` / `handle_nak`) over real connections,
//! against an independent ownership model (per-link outstanding sets + a model
//! of the documented tracker validity rule).

use std::collections::BTreeSet;
use std::sync::Arc;
use std::time::Duration;

use serde_json::{Value, json};
use srtla_core::connection::{SrtlaConnection, SrtlaIncoming};
use srtla_send::sender::SequenceTracker;
use srtla_send::sender::verif_hooks::process_connection_events;

use crate::engine::{self, Fail, Limits, Model, Plan};
use crate::evidence::{Report, Tier};
use crate::util::{Rt, T0, live_conn, set_now, srt_data};

const B: u32 = 100_000;
const SEQS: [u32; 4] = [B, B + 1, B + 16384, B + 2 * 16384];

#[derive(Clone, Copy, Debug, PartialEq)]
enum Ev {
    Route(usize, u32),
    Probe(usize, u32),
    Flush(usize),
    Adv(u64),
    Nak(u32),
    NakRange,
    NakUnknown,
    Ack,
    SrtlaAck(usize),
    Remove(usize),
    Reset(usize),
}

#[derive(Clone, Copy, Debug, PartialEq)]
struct Slot {
    seq: u32,
    conn_id: u64,
    t: u64,
}

#[derive(Clone)]
pub struct St {
    now: u64,
    conns: Vec<SrtlaConnection>,
    tracker: Arc<SequenceTracker>,
    /// model: outstanding numbers per live link (parallel to conns)
    held: Vec<BTreeSet<i32>>,
    /// model: queued-not-flushed numbers per link
    queued: Vec<Vec<i32>>,
    /// model of the tracker: last insert per ring slot
    slots: Vec<(usize, Slot)>,
}

pub struct M {
    links: usize,
    events: Vec<Ev>,
    name: String,
}

impl M {
    fn new(links: usize, reduced: bool) -> Self {
        let mut events = Vec::new();
        let seqs: &[u32] = if reduced { &SEQS[..3] } else { &SEQS };
        for l in 0..links {
            events.push(Ev::Route(l, SEQS[0]));
        }
        for l in 0..links {
            events.push(Ev::Flush(l));
        }
        events.push(Ev::Nak(SEQS[0]));
        for l in 0..links {
            for s in &seqs[1..] {
                events.push(Ev::Route(l, *s));
            }
            events.push(Ev::Probe(l, SEQS[0]));
        }
        events.push(Ev::Adv(5001));
        events.push(Ev::Adv(5000));
        for s in &seqs[1..] {
            events.push(Ev::Nak(*s));
        }
        for l in 0..links {
            events.push(Ev::Remove(l));
        }
        if !reduced {
            events.push(Ev::NakRange);
            events.push(Ev::NakUnknown);
            events.push(Ev::Adv(1));
            events.push(Ev::Adv(4999));
            events.push(Ev::Ack);
            for l in 0..links {
                events.push(Ev::Probe(l, SEQS[1]));
                events.push(Ev::SrtlaAck(l));
                events.push(Ev::Reset(l));
            }
        }
        let name = format!("links={links} alphabet={}", events.len());
        Self { links, events, name }
    }
}

pub struct W {
    rt: Rt,
}

type Proj = (i32, i32, i32, i32, u64, u64, bool, Vec<i32>);
fn proj(c: &SrtlaConnection) -> Proj {
    let mut log: Vec<i32> = c.packet_log.keys().copied().collect();
    log.sort_unstable();
    (
        c.congestion.nak_count,
        c.window,
        c.in_flight_packets,
        c.congestion.nak_burst_count,
        c.congestion.last_nak_time_ms,
        c.congestion.nak_burst_start_time_ms,
        c.congestion.fast_recovery_mode,
        log,
    )
}

impl M {
    fn model_tracker_owner(&self, s: &St, seq: u32) -> Option<u64> {
        let idx = (seq as usize) & 16383;
        let e = s.slots.iter().find(|x| x.0 == idx)?.1;
        if e.seq == seq && s.now.saturating_sub(e.t) <= 5000 {
            Some(e.conn_id)
        } else {
            None
        }
    }

    fn nak_one(&self, w: &mut W, s: &mut St, seq: u32, ev: Ev) -> Result<(), Fail> {
        let before: Vec<Proj> = s.conns.iter().map(proj).collect();
        let holders: Vec<usize> = (0..s.conns.len()).filter(|j| s.held[*j].contains(&(seq as i32))).collect();
        let owner = self.model_tracker_owner(s, seq).and_then(|id| s.conns.iter().position(|c| c.conn_id == id));
        let mut inc = SrtlaIncoming::default();
        inc.read_any = true;
        inc.nak_numbers.push(seq);
        let tracker: &SequenceTracker = &s.tracker;
        w.rt.rt
            .block_on(process_connection_events(0, &mut s.conns, None, &w.rt.listener, tracker, false, inc))
            .map_err(|e| Fail::new("shell-error", e.to_string()))?;
        let after: Vec<Proj> = s.conns.iter().map(proj).collect();
        let changed: Vec<usize> = (0..s.conns.len()).filter(|j| before[*j] != after[*j]).collect();
        let ctx = || {
            format!(
                "{ev:?} (NAK {seq}): links holding it {holders:?}, tracker (model) names link {owner:?}, changed links {changed:?}; before {:?} after {:?}",
                before.iter().map(|p| (p.0, p.1, p.2)).collect::<Vec<_>>(),
                after.iter().map(|p| (p.0, p.1, p.2)).collect::<Vec<_>>()
            )
        };
        if changed.len() > 1 {
            return Err(Fail::new("nak-charged-to-more-than-one-link", ctx()));
        }
        if let Some(&j) = changed.first() {
            if !holders.contains(&j) {
                return Err(Fail::new("nak-charged-to-link-that-did-not-hold-the-packet", ctx()));
            }
            let (b, a) = (&before[j], &after[j]);
            let exp_w = (b.1 - 100).max(1000);
            if a.0 != b.0 + 1 || a.1 != exp_w || a.2 != b.2 - 1 {
                return Err(Fail::new("nak-charge-not-exactly-one", ctx()));
            }
            if let Some(o) = owner {
                if o != j {
                    return Err(Fail::new("nak-charged-to-other-link-while-tracker-remembers-the-sender", ctx()));
                }
            }
            s.held[j].remove(&(seq as i32));
        }
        Ok(())
    }
}

impl Model for M {
    type S = St;
    type W = W;
    fn worker(&self) -> W {
        W { rt: Rt::new() }
    }
    fn n_inits(&self) -> usize {
        2
    }
    fn init_name(&self, i: usize) -> String {
        ["live links, empty tracker", "live links whose windows were walked to the floor region by real NAK runs (1000, 1037, 1100, ...), empty tracker"][i].into()
    }
    fn init(&self, _w: &mut W, i: usize) -> St {
        set_now(T0);
        let mut conns: Vec<SrtlaConnection> = (0..self.links).map(|l| live_conn(l, T0)).collect();
        if i == 1 {
            for (l, c) in conns.iter_mut().enumerate() {
                // link 0: 190 charged NAKs -> 1000; link 1: 190 NAKs then 37 global +1 -> 1037; others: 189 NAKs -> 1100
                let naks = if l >= 2 { 189 } else { 190 };
                for k in 0..naks {
                    let q = 500_000 + (l as i32) * 1000 + k;
                    c.register_packet(q, T0);
                    c.handle_nak(q, T0);
                }
                if l == 1 {
                    for _ in 0..37 {
                        c.handle_srtla_ack_global();
                    }
                }
            }
            let want = [1000, 1037, 1100, 1100];
            for (l, c) in conns.iter().enumerate() {
                assert_eq!(c.window, want[l.min(3)], "scripted start state: link {l} window");
                assert!(c.packet_log.is_empty());
            }
        }
        St {
            now: T0,
            conns,
            tracker: Arc::new(SequenceTracker::new()),
            held: vec![BTreeSet::new(); self.links],
            queued: vec![Vec::new(); self.links],
            slots: Vec::new(),
        }
    }
    fn n_events(&self) -> usize {
        self.events.len()
    }
    fn event_name(&self, e: usize) -> String {
        format!("{:?}", self.events[e])
    }
    fn enabled(&self, s: &St, e: usize) -> bool {
        let present = |l: usize| s.conns.iter().any(|c| c.conn_id == 1000 + l as u64);
        match self.events[e] {
            Ev::Route(l, _) | Ev::Probe(l, _) | Ev::Flush(l) | Ev::SrtlaAck(l) | Ev::Reset(l) => present(l),
            Ev::Remove(l) => present(l) && s.conns.len() > 1,
            _ => true,
        }
    }
    fn step(&self, w: &mut W, s: &mut St, e: usize) -> Result<(), Fail> {
        let ev = self.events[e];
        s.now += 1;
        set_now(s.now);
        let pos = |s: &St, l: usize| s.conns.iter().position(|c| c.conn_id == 1000 + l as u64).unwrap();
        match ev {
            Ev::Route(l, seq) | Ev::Probe(l, seq) => {
                let j = pos(s, l);
                let p = srt_data(seq, false, seq, 32);
                s.conns[j].queue_data_packet(&p, Some(seq), s.now);
                s.queued[j].push(seq as i32);
                if let Ev::Route(..) = ev {
                    // the unique copy is tracked at queue time (forward_via_connection)
                    let id = s.conns[j].conn_id;
                    Arc::make_mut(&mut s.tracker).insert(seq, id, s.now);
                    let idx = (seq as usize) & 16383;
                    s.slots.retain(|x| x.0 != idx);
                    s.slots.push((idx, Slot { seq, conn_id: id, t: s.now }));
                }
            }
            Ev::Flush(l) => {
                let j = pos(s, l);
                let b = s.conns[j].take_batch(s.now);
                if b.len() != s.queued[j].len() {
                    return Err(Fail::new("batch", format!("take_batch returned {} of {}", b.len(), s.queued[j].len())));
                }
                for x in s.queued[j].drain(..) {
                    s.held[j].insert(x);
                }
            }
            Ev::Adv(dt) => s.now += dt - 1,
            Ev::Nak(seq) => self.nak_one(w, s, seq, ev)?,
            Ev::NakUnknown => self.nak_one(w, s, B + 7777, ev)?,
            Ev::NakRange => {
                // B..=B+1 as a range through the real parser
                let mut p = vec![0x80u8, 0x03, 0, 0];
                p.extend_from_slice(&(B | 0x8000_0000).to_be_bytes());
                p.extend_from_slice(&(B + 1).to_be_bytes());
                for seq in srtla_protocol::parse_srt_nak(&p) {
                    self.nak_one(w, s, seq, ev)?;
                }
            }
            Ev::Ack => {
                let mut inc = SrtlaIncoming::default();
                inc.read_any = true;
                inc.ack_numbers.push(B + 1);
                let tracker: &SequenceTracker = &s.tracker;
                w.rt.rt
                    .block_on(process_connection_events(0, &mut s.conns, None, &w.rt.listener, tracker, false, inc))
                    .map_err(|e| Fail::new("shell-error", e.to_string()))?;
                for h in s.held.iter_mut() {
                    h.retain(|x| *x > (B + 1) as i32);
                }
            }
            Ev::SrtlaAck(l) => {
                let j = pos(s, l);
                if let Some(&q) = s.held[j].iter().next() {
                    let mut inc = SrtlaIncoming::default();
                    inc.read_any = true;
                    inc.srtla_ack_numbers.push(q as u32);
                    let tracker: &SequenceTracker = &s.tracker;
                    w.rt.rt
                        .block_on(process_connection_events(j, &mut s.conns, None, &w.rt.listener, tracker, false, inc))
                        .map_err(|e| Fail::new("shell-error", e.to_string()))?;
                    s.held[j].remove(&q);
                }
            }
            Ev::Remove(l) => {
                // what apply_connection_changes does for a removed link
                let j = pos(s, l);
                let id = s.conns[j].conn_id;
                s.conns.remove(j);
                s.held.remove(j);
                s.queued.remove(j);
                Arc::make_mut(&mut s.tracker).remove_connection(id);
                s.slots.retain(|x| x.1.conn_id != id);
            }
            Ev::Reset(l) => {
                let j = pos(s, l);
                s.conns[j].mark_for_recovery();
                s.conns[j].clear_pre_registration_state(s.now);
                s.conns[j].connected = true;
                s.conns[j].last_received = Some(s.now);
                s.held[j].clear();
                s.queued[j].clear();
            }
        }
        // model and real logs agree
        for (j, c) in s.conns.iter().enumerate() {
            if c.packet_log.len() != s.held[j].len() || !s.held[j].iter().all(|x| c.packet_log.contains_key(x)) {
                let mut log: Vec<i32> = c.packet_log.keys().copied().collect();
                log.sort_unstable();
                return Err(Fail::new("log-differs-from-ownership-model", format!("after {ev:?}: link at position {j} holds {log:?}, model {:?}", s.held[j])));
            }
        }
        // the real tracker agrees with the documented validity rule
        for seq in SEQS {
            let real = s.tracker.get(seq, s.now);
            let model = self.model_tracker_owner(s, seq);
            if real != model {
                return Err(Fail::new(
                    "tracker-differs-from-documented-rule",
                    format!("after {ev:?}: tracker.get({seq}) = {real:?}, documented rule (same number, age <= 5000 ms, slot not overwritten, link present) gives {model:?}"),
                ));
            }
        }
        Ok(())
    }
    fn fingerprint(&self, s: &St) -> u64 {
        let v: Vec<(u64, i32, i32, Vec<i32>)> = s
            .conns
            .iter()
            .map(|c| {
                let mut log: Vec<i32> = c.packet_log.keys().copied().collect();
                log.sort_unstable();
                (c.conn_id, c.window, c.congestion.nak_count, log)
            })
            .collect();
        let tr: Vec<Option<u64>> = SEQS.iter().map(|q| s.tracker.get(*q, s.now)).collect();
        engine::hash_of(&(v, tr))
    }
}

fn models(tier: Tier) -> Vec<(String, Arc<M>, Vec<Plan>)> {
    let mut out = Vec::new();
    let mk = |links: usize, reduced: bool| {
        let m = Arc::new(M::new(links, reduced));
        (m.name.clone(), m)
    };
    if tier.is_quick() {
        let (l, m) = mk(2, true);
        out.push((l, m, vec![Plan::Full { depth: 5 }]));
        let (l, m) = mk(2, false);
        out.push((l, m, vec![Plan::Full { depth: 4 }]));
        let (l, m) = mk(3, true);
        out.push((l, m, vec![Plan::Full { depth: 4 }]));
    } else {
        let (l, m) = mk(2, true);
        out.push((l, m, vec![Plan::Full { depth: 7 }]));
        let (l, m) = mk(2, false);
        out.push((l, m, vec![Plan::Full { depth: 5 }]));
        let (l, m) = mk(3, true);
        out.push((l, m, vec![Plan::Full { depth: 6 }]));
        let (l, m) = mk(3, false);
        out.push((l, m, vec![Plan::Full { depth: 4 }]));
        let (l, m) = mk(4, true);
        out.push((l, m, vec![Plan::Full { depth: 5 }]));
    }
    out
}

/// The same clause in the shell world: the real routing path (`handle_srt_packet` ->
/// `forward_via_connection`, tracker insert, threshold flush, send failures via a closed receiver port)
/// against the harness's own record of which link got the unique copy last.
fn world_models(tier: Tier) -> Vec<(String, Arc<super::stream::StreamModel>, Vec<Plan>)> {
    use super::stream::{InitKind, Oracles, SEv, StreamModel};
    let or = Oracles { c01: false, c03: false, c04: false, c10: false, c05: true };
    let events = vec![SEv::Cdata, SEv::Crtx, SEv::UnakSingle(0), SEv::UnakRtx(1), SEv::UnakDup(1), SEv::Fclose(0), SEv::Fclose(1), SEv::Tflush, SEv::Cburst(16)];
    let inits = vec![("S2 live".to_string(), InitKind::Live { classic: false }), ("S3 streaming".to_string(), InitKind::Streaming { classic: false })];
    let m = Arc::new(StreamModel { name: "world links=2 (routing path, send failures)".to_string(), n: 2, events, inits, or });
    let cdata = 0usize;
    if tier.is_quick() {
        vec![(m.name.clone(), m, vec![Plan::Full { depth: 4 }, Plan::Dev { k: 3, depth: 20, default: Arc::new(move |_| cdata) }])]
    } else {
        vec![(m.name.clone(), m, vec![Plan::Full { depth: 6 }, Plan::Dev { k: 3, depth: 32, default: Arc::new(move |_| cdata) }])]
    }
}

pub fn run(tier: Tier) -> Report {
    let mut rep = Report::new();
    let lim = Limits {
        wall: Duration::from_secs(if tier.is_quick() { 40 } else { 2400 }),
        ..Default::default()
    };
    match crate::world::glue_fingerprint() {
        Ok(_) => {
            for (label, m, plans) in world_models(tier) {
                for plan in plans {
                    let ex = engine::explore(&*m, &plan, &lim);
                    engine::fold(&mut rep, &*m, &format!("{label} {}", plan.describe()), &plan, ex);
                }
            }
        }
        Err(e) => rep.machinery_errors.push(format!("{e} (the world-based exploration was skipped)")),
    }
    for (label, m, plans) in models(tier) {
        for plan in plans {
            let ex = engine::explore(&*m, &plan, &lim);
            engine::fold(&mut rep, &*m, &format!("{label} {}", plan.describe()), &plan, ex);
        }
        rep.set(
            &format!("alphabet[{label}]"),
            json!((0..m.n_events()).map(|e| m.event_name(e)).collect::<Vec<_>>()),
        );
    }
    rep.set("sequence_numbers", json!({"b": B, "b+1": B + 1, "b+16384 (same ring slot as b)": B + 16384, "b+2*16384": B + 2 * 16384}));
    rep.set("oracle", json!("for every NAKed number, per-link (loss count, window, in-flight, burst counters, fast-recovery, log) before/after: at most one link changes; it held the number; the change is exactly (+1, -100 floored at 1000, -1); while the model of the tracker (same number, age <= 5000 ms, slot not overwritten by a colliding newer number, link still present) names a link, no other link changes; a repeated / unknown NAK changes nothing anywhere; plus: real packet logs == ownership model, real tracker lookups == documented validity rule, after every event"));
    rep.assume("the NAK list reaches the real process_connection_events as parsed numbers (ranges through the real parser); the byte-level path is C09's subject; link removal is the pair (drop the connection, SequenceTracker::remove_connection) that apply_connection_changes performs (the real apply_connection_changes is exercised in C19's world)");
    rep
}

pub fn replay(v: &Value) -> Result<(), String> {
    if v["exploration"].as_str().unwrap_or("").starts_with("world ") {
        let mut ms = Vec::new();
        for tier in [Tier::Quick, Tier::Thorough] {
            for (l, m, _) in world_models(tier) {
                ms.push((l, m));
            }
        }
        return engine::replay_json(&ms, v);
    }
    let mut ms = Vec::new();
    for tier in [Tier::Quick, Tier::Thorough] {
        for (l, m, _) in models(tier) {
            ms.push((l, m));
        }
    }
    engine::replay_json(&ms, v)
}
