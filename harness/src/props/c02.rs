//! C02 — per-link in-flight count equals packets sent and not yet retired.
//!
//! History exploration of the real `SrtlaConnection` registration / ACK / NAK /
//! reset code (registration through `queue_data_packet` + `take_batch`, all
//! inbound accounting through the real shell function
//! `process_connection_events`), against one `BTreeSet<i32>` per link.

use std::collections::{BTreeMap, BTreeSet};
use std::sync::Arc;
use std::time::Duration;

use serde_json::{Value, json};
use srtla_core::connection::{SrtlaConnection, SrtlaIncoming};
use srtla_send::sender::SequenceTracker;
use srtla_send::sender::verif_hooks::process_connection_events;

use crate::engine::{self, Fail, Limits, Model, Plan};
use crate::evidence::{Report, Tier};
use crate::util::{Rt, T0, live_conn, set_now, srt_data};

#[derive(Clone, Copy, Debug, PartialEq)]
enum SendKind {
    Next,
    Gap,
    Acked,
    Below70,
    DupLast,
}

#[derive(Clone, Copy, Debug, PartialEq)]
enum AckKind {
    All,
    Dup,
    Stale3,
    Plus1,
    Plus10,
    Plus64,
    Plus65,
    Far,
}

#[derive(Clone, Copy, Debug, PartialEq)]
enum Which {
    Own,
    Other,
    Nobody,
}

#[derive(Clone, Copy, Debug, PartialEq)]
enum NakKind {
    Oldest,
    Newest,
    Nobody,
    RangeAll,
}

#[derive(Clone, Copy, Debug, PartialEq)]
enum ResetKind {
    Recovery,
    Reconnect,
    Reg3,
}

#[derive(Clone, Copy, Debug, PartialEq)]
enum Ev {
    Send(usize, SendKind),
    Queue(usize),
    Flush(usize),
    Ack(AckKind),
    Sla(usize, Which),
    Nak(NakKind),
    Reset(usize, ResetKind),
}

#[derive(Clone)]
pub struct St {
    now: u64,
    conns: Vec<SrtlaConnection>,
    model: Vec<BTreeSet<i32>>,
    /// queued-but-not-flushed numbers per link (model side)
    queued: Vec<Vec<i32>>,
    next: i32,
    last_sent: Option<i32>,
    prev_ack: Option<i32>,
    /// tracked models only: the real NAK-attribution tracker, fed the way the shell feeds it (at queue
    /// time), and the model of it (number -> link that queued it last)
    tracker: Option<Arc<SequenceTracker>>,
    tmodel: BTreeMap<i32, usize>,
}

pub struct M {
    pub links: usize,
    pub base: i32,
    events: Vec<Ev>,
    /// feed the NAK-attribution tracker (otherwise it stays empty: fallback scan)
    tracked: bool,
}

pub struct W {
    rt: Rt,
    tracker: SequenceTracker,
}

impl M {
    pub fn new(links: usize, base: i32, reduced: bool) -> Self {
        let mut events = Vec::new();
        // ordered simplest-first
        for l in 0..links {
            events.push(Ev::Send(l, SendKind::Next));
        }
        events.push(Ev::Ack(AckKind::All));
        events.push(Ev::Ack(AckKind::Plus1));
        for l in 0..links {
            events.push(Ev::Sla(l, Which::Own));
        }
        events.push(Ev::Nak(NakKind::Oldest));
        for l in 0..links {
            events.push(Ev::Send(l, SendKind::Acked));
            events.push(Ev::Send(l, SendKind::Below70));
            events.push(Ev::Send(l, SendKind::DupLast));
            if !reduced {
                events.push(Ev::Send(l, SendKind::Gap));
            }
        }
        events.push(Ev::Ack(AckKind::Dup));
        events.push(Ev::Ack(AckKind::Stale3));
        events.push(Ev::Ack(AckKind::Plus64));
        events.push(Ev::Ack(AckKind::Plus65));
        if !reduced {
            events.push(Ev::Ack(AckKind::Plus10));
            events.push(Ev::Ack(AckKind::Far));
        }
        for l in 0..links {
            if links > 1 {
                events.push(Ev::Sla(l, Which::Other));
            }
            if !reduced {
                events.push(Ev::Sla(l, Which::Nobody));
            }
        }
        events.push(Ev::Nak(NakKind::Newest));
        events.push(Ev::Nak(NakKind::RangeAll));
        if !reduced {
            events.push(Ev::Nak(NakKind::Nobody));
        }
        for l in 0..links {
            events.push(Ev::Reset(l, ResetKind::Recovery));
            if !reduced {
                events.push(Ev::Queue(l));
                events.push(Ev::Flush(l));
                events.push(Ev::Reset(l, ResetKind::Reconnect));
                events.push(Ev::Reset(l, ResetKind::Reg3));
            }
        }
        Self { links, base, events, tracked: false }
    }

    fn label(&self, reduced: bool) -> String {
        format!(
            "links={} base={} alphabet={}{}",
            self.links,
            self.base,
            if reduced { "reduced" } else { "full" },
            if self.tracked { " tracker=fed" } else { "" }
        )
    }
    pub fn tracked(mut self) -> Self {
        self.tracked = true;
        self
    }

    fn ack_target(&self, s: &St, k: AckKind) -> Option<i32> {
        let prev = s.prev_ack.unwrap_or(self.base - 1);
        let t = match k {
            AckKind::All => s.next - 1,
            AckKind::Dup => s.prev_ack?,
            AckKind::Stale3 => s.prev_ack? - 3,
            AckKind::Plus1 => prev.checked_add(1)?,
            AckKind::Plus10 => prev.checked_add(10)?,
            AckKind::Plus64 => prev.checked_add(64)?,
            AckKind::Plus65 => prev.checked_add(65)?,
            AckKind::Far => prev.checked_add(70_000)?,
        };
        // the span must not wrap the 31-bit space (C02's own quantifier)
        if t < 0 || t > i32::MAX - 100_000 {
            return None;
        }
        Some(t)
    }

    fn send_seq(&self, s: &St, k: SendKind) -> Option<i32> {
        match k {
            SendKind::Next => Some(s.next),
            SendKind::Gap => Some(s.next + 1),
            SendKind::Acked => s.prev_ack.filter(|a| *a >= 0),
            SendKind::Below70 => Some(s.next - 70).filter(|x| *x >= 0),
            SendKind::DupLast => s.last_sent,
        }
    }

    fn sla_seq(&self, s: &St, l: usize, w: Which) -> Option<i32> {
        match w {
            Which::Own => s.model[l].iter().next().copied(),
            Which::Other => {
                for (j, set) in s.model.iter().enumerate() {
                    if j == l {
                        continue;
                    }
                    if let Some(x) = set.iter().find(|x| !s.model[l].contains(x)) {
                        return Some(*x);
                    }
                }
                None
            }
            Which::Nobody => Some(s.next + 5),
        }
    }
}

fn log_of(c: &SrtlaConnection) -> Vec<i32> {
    let mut v: Vec<i32> = c.packet_log.keys().copied().collect();
    v.sort_unstable();
    v
}

impl M {
    fn check(&self, s: &St, ev: Ev) -> Result<(), Fail> {
        for (l, c) in s.conns.iter().enumerate() {
            let same = c.packet_log.len() == s.model[l].len()
                && s.model[l].iter().all(|x| c.packet_log.contains_key(x));
            let model_len = s.model[l].len();
            if !same {
                let real = log_of(c);
                let model: Vec<i32> = s.model[l].iter().copied().collect();
                let extra: Vec<i32> = real
                    .iter()
                    .filter(|x| !s.model[l].contains(x))
                    .copied()
                    .collect();
                let missing: Vec<i32> = model
                    .iter()
                    .filter(|x| !c.packet_log.contains_key(x))
                    .copied()
                    .collect();
                let key = if missing.is_empty()
                    && !extra.is_empty()
                    && extra.iter().all(|x| *x <= c.highest_acked_seq)
                {
                    "ack-leak:registered-at-or-below-high-water-mark"
                } else if missing.is_empty() {
                    "log-has-unretired-packets"
                } else {
                    "log-lost-outstanding-packets"
                };
                return Err(Fail::new(
                    key,
                    format!(
                        "after {ev:?}: link {l} outstanding set differs from the set model: \
                         not retired {extra:?}, wrongly retired {missing:?} \
                         (in_flight={}, model={}, high-water mark={})",
                        c.in_flight_packets,
                        model.len(),
                        c.highest_acked_seq
                    ),
                ));
            }
            if c.in_flight_packets < 0 || c.in_flight_packets as usize != model_len {
                return Err(Fail::new(
                    "count-differs-from-log",
                    format!(
                        "after {ev:?}: link {l} in_flight_packets={} but {} outstanding",
                        c.in_flight_packets,
                        model_len
                    ),
                ));
            }
            let q = s.queued[l].len() as i32;
            if c.batch_sender.queued_count() != q {
                return Err(Fail::new(
                    "queued-count",
                    format!(
                        "after {ev:?}: link {l} queued_count={} expected {q}",
                        c.batch_sender.queued_count()
                    ),
                ));
            }
            let expect = if c.connected {
                c.window / (model_len as i32 + q + 1)
            } else {
                -1
            };
            if c.get_score() != expect {
                return Err(Fail::new(
                    "score",
                    format!(
                        "after {ev:?}: link {l} get_score()={} expected {expect}",
                        c.get_score()
                    ),
                ));
            }
        }
        Ok(())
    }
}

fn run_events(
    w: &mut W,
    conns: &mut [SrtlaConnection],
    idx: usize,
    incoming: SrtlaIncoming,
) -> Result<(), Fail> {
    run_events_with(w, None, conns, idx, incoming)
}

fn run_events_with(
    w: &mut W,
    own: Option<&SequenceTracker>,
    conns: &mut [SrtlaConnection],
    idx: usize,
    incoming: SrtlaIncoming,
) -> Result<(), Fail> {
    let listener = &w.rt.listener;
    let tracker = own.unwrap_or(&w.tracker);
    w.rt.rt
        .block_on(process_connection_events(
            idx, conns, None, listener, tracker, false, incoming,
        ))
        .map_err(|e| Fail::new("shell-error", format!("process_connection_events: {e}")))
}

impl Model for M {
    type S = St;
    type W = W;

    fn worker(&self) -> W {
        W {
            rt: Rt::new(),
            tracker: SequenceTracker::new(),
        }
    }
    fn n_inits(&self) -> usize {
        2
    }
    fn init_name(&self, i: usize) -> String {
        ["fresh", "ten-sent-five-acked"][i].to_string()
    }
    fn init(&self, w: &mut W, i: usize) -> St {
        set_now(T0);
        let mut s = St {
            now: T0,
            conns: (0..self.links).map(|l| live_conn(l, T0)).collect(),
            model: vec![BTreeSet::new(); self.links],
            queued: vec![Vec::new(); self.links],
            next: self.base,
            last_sent: None,
            prev_ack: None,
            tracker: if self.tracked { Some(Arc::new(SequenceTracker::new())) } else { None },
            tmodel: BTreeMap::new(),
        };
        if i == 1 {
            // non-initial situation reached by the real code: 10 packets
            // round-robin, cumulative ACK of the first five
            let ev_send: Vec<usize> = (0..self.links)
                .map(|l| {
                    self.events
                        .iter()
                        .position(|e| *e == Ev::Send(l, SendKind::Next))
                        .unwrap()
                })
                .collect();
            for k in 0..10 {
                self.step(w, &mut s, ev_send[k % self.links]).expect("prefix");
            }
            let a = s.next - 6;
            let mut inc = SrtlaIncoming::default();
            inc.read_any = true;
            inc.ack_numbers.push(a as u32);
            run_events(w, &mut s.conns, 0, inc).expect("prefix ack");
            for set in s.model.iter_mut() {
                set.retain(|x| *x > a);
            }
            s.prev_ack = Some(a);
        }
        s
    }
    fn n_events(&self) -> usize {
        self.events.len()
    }
    fn event_name(&self, e: usize) -> String {
        format!("{:?}", self.events[e])
    }
    fn enabled(&self, s: &St, e: usize) -> bool {
        match self.events[e] {
            Ev::Send(_, k) => self.send_seq(s, k).is_some(),
            Ev::Queue(l) => s.queued[l].len() < 3,
            Ev::Flush(l) => !s.queued[l].is_empty(),
            Ev::Ack(k) => self.ack_target(s, k).is_some(),
            Ev::Sla(l, w) => self.sla_seq(s, l, w).is_some(),
            Ev::Nak(NakKind::Nobody) => true,
            Ev::Nak(_) => s.model.iter().any(|m| !m.is_empty()),
            Ev::Reset(..) => true,
        }
    }

    fn step(&self, w: &mut W, s: &mut St, e: usize) -> Result<(), Fail> {
        s.now += 1;
        set_now(s.now);
        let now = s.now;
        let ev = self.events[e];
        match ev {
            Ev::Send(l, k) => {
                let seq = self.send_seq(s, k).unwrap();
                let pkt = srt_data(seq as u32, false, seq as u32, 32);
                // production registration path: queue, then drain the batch
                s.conns[l].queue_data_packet(&pkt, Some(seq as u32), now);
                if let Some(t) = s.tracker.as_mut() {
                    Arc::make_mut(t).insert(seq as u32, s.conns[l].conn_id, now);
                    s.tmodel.insert(seq, l);
                }
                let b = s.conns[l].take_batch(now);
                let nq = s.queued[l].len();
                if b.len() != nq + 1 {
                    return Err(Fail::new(
                        "batch",
                        format!("take_batch returned {} datagrams, expected {}", b.len(), nq + 1),
                    ));
                }
                let qd: Vec<i32> = s.queued[l].drain(..).collect();
                for x in qd {
                    s.model[l].insert(x);
                }
                s.model[l].insert(seq);
                match k {
                    SendKind::Next => s.next += 1,
                    SendKind::Gap => s.next += 2,
                    _ => {}
                }
                s.last_sent = Some(seq);
            }
            Ev::Queue(l) => {
                let seq = s.next;
                let pkt = srt_data(seq as u32, false, seq as u32, 32);
                s.conns[l].queue_data_packet(&pkt, Some(seq as u32), now);
                if let Some(t) = s.tracker.as_mut() {
                    Arc::make_mut(t).insert(seq as u32, s.conns[l].conn_id, now);
                    s.tmodel.insert(seq, l);
                }
                s.queued[l].push(seq);
                s.next += 1;
                s.last_sent = Some(seq);
            }
            Ev::Flush(l) => {
                let b = s.conns[l].take_batch(now);
                if b.len() != s.queued[l].len() {
                    return Err(Fail::new(
                        "batch",
                        format!(
                            "take_batch returned {} datagrams, expected {}",
                            b.len(),
                            s.queued[l].len()
                        ),
                    ));
                }
                let qd: Vec<i32> = s.queued[l].drain(..).collect();
                for x in qd {
                    s.model[l].insert(x);
                }
            }
            Ev::Ack(k) => {
                let a = self.ack_target(s, k).unwrap();
                let before: Vec<(Vec<i32>, i32)> =
                    s.conns.iter().map(|c| (log_of(c), c.window)).collect();
                let mut inc = SrtlaIncoming::default();
                inc.read_any = true;
                inc.ack_numbers.push(a as u32);
                run_events(w, &mut s.conns, 0, inc)?;
                for set in s.model.iter_mut() {
                    set.retain(|x| *x > a);
                }
                if s.prev_ack.is_none_or(|p| a > p) {
                    s.prev_ack = Some(a);
                }
                // a cumulative ACK never touches the window
                for (l, c) in s.conns.iter().enumerate() {
                    if c.window != before[l].1 {
                        return Err(Fail::new(
                            "cumulative-ack-changed-window",
                            format!("after {ev:?}: link {l} window {} -> {}", before[l].1, c.window),
                        ));
                    }
                }
            }
            Ev::Sla(l, which) => {
                let seq = self.sla_seq(s, l, which).unwrap();
                let holders: Vec<usize> = (0..self.links)
                    .filter(|j| s.model[*j].contains(&seq))
                    .collect();
                let mut inc = SrtlaIncoming::default();
                inc.read_any = true;
                inc.srtla_ack_numbers.push(seq as u32);
                run_events(w, &mut s.conns, l, inc)?;
                let lost: Vec<usize> = holders
                    .iter()
                    .copied()
                    .filter(|j| !s.conns[*j].packet_log.contains_key(&seq))
                    .collect();
                let ok = if holders.is_empty() {
                    true
                } else if holders.contains(&l) {
                    lost == vec![l]
                } else {
                    lost.len() == 1
                };
                if !ok {
                    return Err(Fail::new(
                        "srtla-ack-retired-wrong-holder",
                        format!(
                            "after {ev:?} (seq {seq}, arrival link {l}): holders {holders:?}, retired on {lost:?}"
                        ),
                    ));
                }
                for j in lost {
                    s.model[j].remove(&seq);
                }
            }
            Ev::Nak(k) => {
                let all: BTreeSet<i32> = s.model.iter().flat_map(|m| m.iter().copied()).collect();
                let list: Vec<u32> = match k {
                    NakKind::Oldest => vec![*all.iter().next().unwrap() as u32],
                    NakKind::Newest => vec![*all.iter().next_back().unwrap() as u32],
                    NakKind::Nobody => vec![(s.next + 7) as u32],
                    NakKind::RangeAll => {
                        // a range NAK through the real parser
                        let lo = *all.iter().next().unwrap() as u32;
                        let hi = *all.iter().next_back().unwrap() as u32;
                        let mut p = vec![0x80u8, 0x03, 0, 0];
                        p.extend_from_slice(&(lo | 0x8000_0000).to_be_bytes());
                        p.extend_from_slice(&hi.to_be_bytes());
                        srtla_protocol::parse_srt_nak(&p).to_vec()
                    }
                };
                for seq in list {
                    let seq_i = seq as i32;
                    let holders: Vec<usize> = (0..self.links)
                        .filter(|j| s.model[*j].contains(&seq_i))
                        .collect();
                    let mut inc = SrtlaIncoming::default();
                    inc.read_any = true;
                    inc.nak_numbers.push(seq);
                    let tr = s.tracker.clone();
                    run_events_with(w, tr.as_deref(), &mut s.conns, 0, inc)?;
                    let lost: Vec<usize> = holders
                        .iter()
                        .copied()
                        .filter(|j| !s.conns[*j].packet_log.contains_key(&seq_i))
                        .collect();
                    let ok = if holders.is_empty() {
                        true
                    } else if let (true, Some(named)) = (self.tracked, s.tmodel.get(&seq_i)) {
                        // the tracker remembers who queued the number last: only that link can be charged,
                        // and if it no longer holds the number the NAK retires nothing
                        if holders.contains(named) { lost == vec![*named] } else { lost.is_empty() }
                    } else {
                        lost.len() == 1
                    };
                    if !ok {
                        return Err(Fail::new(
                            "nak-retired-wrong-holder",
                            format!(
                                "after {ev:?} (seq {seq}): holders {holders:?}, retired on {lost:?}"
                            ),
                        ));
                    }
                    for j in lost {
                        s.model[j].remove(&seq_i);
                    }
                }
            }
            Ev::Reset(l, k) => {
                match k {
                    ResetKind::Recovery => s.conns[l].mark_for_recovery(),
                    ResetKind::Reconnect => s.conns[l].reset_for_reconnect(now),
                    ResetKind::Reg3 => {
                        // what the shell does on REG3 (uplink_recv.rs)
                        s.conns[l].clear_pre_registration_state(now);
                        s.conns[l].connected = true;
                        s.conns[l].last_received = Some(now);
                    }
                }
                s.model[l].clear();
                s.queued[l].clear();
            }
        }
        self.check(s, ev)
    }

    fn fingerprint(&self, s: &St) -> u64 {
        // order-independent digest of each log (no sorting on the hot path)
        let mut h: u64 = 0;
        for (l, c) in s.conns.iter().enumerate() {
            let mut acc: u64 = 0;
            for k in c.packet_log.keys() {
                acc = acc.wrapping_add(engine::hash_of(&(*k, 0x9e37u16)));
            }
            h = h
                .rotate_left(13)
                .wrapping_add(engine::hash_of(&(
                    l,
                    acc,
                    c.highest_acked_seq,
                    c.connected,
                    c.window,
                    c.batch_sender.queued_count(),
                )));
        }
        h
    }
}

fn models(tier: Tier) -> Vec<(String, Arc<M>, Vec<Plan>)> {
    let send0 = |m: &M| {
        m.events
            .iter()
            .position(|e| *e == Ev::Send(0, SendKind::Next))
            .unwrap()
    };
    let mut out = Vec::new();
    let mk = |links: usize, base: i32, reduced: bool| {
        let m = Arc::new(M::new(links, base, reduced));
        (m.label(reduced), m)
    };
    let far_base = i32::MAX - 600_000;
    if tier.is_quick() {
        let (l, m) = mk(1, 1000, false);
        out.push((l, m, vec![Plan::Full { depth: 5 }]));
        let (l, m) = mk(2, 1000, true);
        let d = send0(&m);
        out.push((
            l,
            m,
            vec![
                Plan::Full { depth: 4 },
                Plan::Dev {
                    k: 2,
                    depth: 70,
                    default: Arc::new(move |_| d),
                },
            ],
        ));
        let (l, m) = mk(2, far_base, true);
        out.push((l, m, vec![Plan::Full { depth: 4 }]));
        // three links: an SRTLA ACK arriving on a link that does not hold the number while two others do
        let (l, m) = mk(3, 1000, true);
        out.push((l, m, vec![Plan::Full { depth: 4 }]));
        // the NAK-attribution tracker fed as the shell feeds it: a NAK retires the number only on the link the tracker names
        let m = Arc::new(M::new(2, 1000, true).tracked());
        out.push((m.label(true), m, vec![Plan::Full { depth: 4 }]));
    } else {
        let (l, m) = mk(1, 1000, false);
        let d = send0(&m);
        out.push((
            l,
            m,
            vec![
                Plan::Full { depth: 6 },
                Plan::Dev {
                    k: 3,
                    depth: 24,
                    default: Arc::new(move |_| d),
                },
            ],
        ));
        let (l, m) = mk(2, 1000, false);
        let d = send0(&m);
        out.push((
            l,
            m,
            vec![
                Plan::Full { depth: 5 },
                Plan::Dev {
                    k: 2,
                    depth: 80,
                    default: Arc::new(move |_| d),
                },
            ],
        ));
        let (l, m) = mk(2, far_base, false);
        out.push((l, m, vec![Plan::Full { depth: 4 }]));
        let (l, m) = mk(3, 1000, true);
        let d = send0(&m);
        out.push((
            l,
            m,
            vec![
                Plan::Full { depth: 5 },
                Plan::Dev {
                    k: 2,
                    depth: 40,
                    default: Arc::new(move |p| d + (p % 3)),
                },
            ],
        ));
        let m = Arc::new(M::new(2, 1000, true).tracked());
        out.push((m.label(true), m, vec![Plan::Full { depth: 5 }]));
        let m = Arc::new(M::new(3, 1000, true).tracked());
        out.push((m.label(true), m, vec![Plan::Full { depth: 4 }]));
        let (l, m) = mk(4, 1000, true);
        let d = send0(&m);
        out.push((
            l,
            m,
            vec![
                Plan::Full { depth: 4 },
                Plan::Dev {
                    k: 2,
                    depth: 40,
                    default: Arc::new(move |p| d + (p % 4)),
                },
            ],
        ));
    }
    out
}

pub fn run(tier: Tier) -> Report {
    let mut rep = Report::new();
    let lim = Limits {
        wall: Duration::from_secs(if tier.is_quick() { 40 } else { 480 }),
        ..Default::default()
    };
    for (label, m, plans) in models(tier) {
        for plan in plans {
            let ex = engine::explore(&*m, &plan, &lim);
            engine::fold(&mut rep, &*m, &format!("{label} {}", plan.describe()), &plan, ex);
        }
        rep.set(
            &format!("alphabet[{label}]"),
            json!((0..m.n_events()).map(|e| m.event_name(e)).collect::<Vec<_>>()),
        );
    }
    rep.set(
        "oracle",
        json!("after every event, per link: packet_log keys == BTreeSet model; in_flight_packets == |set| >= 0; queued_count == model queue; get_score() == window/(|set|+queued+1) or -1 when disconnected; SRTLA ACK retires the arrival link's copy first, else exactly one other holder; NAK retires exactly one holder; numbers a link does not hold leave it untouched; cumulative ACK a retires {s<=a} on every link whatever ACKs came before"),
    );
    rep.assume("sequence numbers stay inside a span of the 31-bit space that does not wrap (C02's quantifier)");
    rep.assume("inbound accounting is driven through the real shell function process_connection_events with a hand-built SrtlaIncoming (the parsers are C15's subject; the full parser->dispatch path is C09's); the NAK-attribution tracker is empty (fallback scan) except in the models labelled tracker=fed, where it is fed at queue time like the shell does and a NAK must retire the number on the link the tracker names, or nowhere if that link no longer holds it; expiry and slot collisions of the tracker are C05's subject");
    rep.assume("histories are bounded by the stated depths / deviation bounds");
    rep
}

pub fn replay(v: &Value) -> Result<(), String> {
    let mut ms = Vec::new();
    for tier in [Tier::Quick, Tier::Thorough] {
        for (l, m, _) in models(tier) {
            ms.push((l, m));
        }
    }
    engine::replay_json(&ms, v)
}
