//! C17 — weak-link classifier cannot starve a link forever or flap on a blip.
//!
//! Explicit-state BFS over the real `WeakLinkFilter::classify`, driven tick by
//! tick with real connections whose inputs (connected flag, bitrate, RTT
//! tracker built from real samples) are chosen from a per-link alphabet, with
//! an independent verdict-history monitor. The filter's private hysteresis
//! memory (hook view) plus the monitor's memory form the canonical key; all
//! counters saturate, so the search reaches a fixpoint.

use std::time::Duration;

use serde_json::{Value, json};
use srtla_core::connection::SrtlaConnection;
use srtla_core::selection::classifier::{WeakLinkFilter, WeakReason};

use crate::engine::{self, Canon, Fail, Model};
use crate::evidence::{Report, Tier};
use crate::util::{T0, live_conn, set_now};

#[derive(Clone, Copy, Debug, PartialEq, Eq, Hash)]
enum Rtt {
    Ok,
    Over,
    Queue,
}

#[derive(Clone, Copy, Debug, PartialEq, Eq, Hash)]
enum Sym {
    Absent,
    Down,
    Up(u32, Rtt),
}

#[derive(Clone, Debug, PartialEq, Eq, Hash, Default)]
struct LinkMon {
    /// previous verdict, if the link was judged (connected, not bypassed) last tick
    prev_weak: Option<bool>,
    /// delay signal present (and judged) on the previous tick
    prev_signal: bool,
    /// consecutive share-weak verdicts (LowShare / NoTraffic)
    share_run: u32,
    /// forced not-weak verdicts still owed
    probation_owed: u32,
}

#[derive(Clone)]
pub struct St {
    filter: WeakLinkFilter,
    mon: Vec<LinkMon>,
}

pub struct M {
    links: usize,
    syms: Vec<Sym>,
    name: String,
}

pub struct W {
    /// template connections per RTT class (trackers built from real samples)
    tmpl: Vec<SrtlaConnection>,
}

/// Bitrates whose share lands exactly on / just under the enter and leave
/// thresholds when every other link carries 1 Mbit/s:
/// share permille = floor(1000 x / (x + (n-1) 1e6)); thresholds floor(250/n), floor(750/n).
fn boundary_bps(n: usize) -> [u32; 4] {
    match n {
        // n = 1: the only link always has share 1000
        1 => [250_000, 500_000, 750_000, 900_000],
        // 124, 125 | 374, 375
        2 => [141_553, 142_858, 597_445, 600_000],
        // 82, 83 | 249, 250
        3 => [178_650, 181_026, 663_116, 666_667],
        // 61, 62 | 186, 187
        _ => [194_889, 198_295, 685_504, 690_037],
    }
}

impl M {
    /// level 3: tiny, 0: small alphabet, 1: boundary alphabet, 2: full product
    fn new(links: usize, level: u8) -> Self {
        let b = boundary_bps(links);
        let mut syms = if level == 3 { vec![] } else { vec![Sym::Down] };
        match level {
            3 => syms.extend([
                Sym::Up(1_000_000, Rtt::Ok),
                Sym::Up(0, Rtt::Ok),
                Sym::Up(b[2], Rtt::Over),
            ]),
            0 => syms.extend([
                Sym::Up(1_000_000, Rtt::Ok),
                Sym::Up(0, Rtt::Ok),
                Sym::Up(b[2], Rtt::Ok),
                Sym::Up(b[1], Rtt::Over),
            ]),
            1 => syms.extend([
                Sym::Up(1_000_000, Rtt::Ok),
                Sym::Up(0, Rtt::Ok),
                Sym::Up(10_000, Rtt::Ok),
                Sym::Up(1_000_000, Rtt::Over),
                Sym::Up(b[3], Rtt::Queue),
                Sym::Up(b[0], Rtt::Ok),
                Sym::Up(b[1], Rtt::Ok),
                Sym::Up(b[2], Rtt::Ok),
                Sym::Up(b[3], Rtt::Ok),
            ]),
            _ => {
                for x in [0, 10_000, b[0], b[1], b[2], b[3], 1_000_000] {
                    for r in [Rtt::Ok, Rtt::Over, Rtt::Queue] {
                        syms.push(Sym::Up(x, r));
                    }
                }
                syms.push(Sym::Absent);
            }
        }
        let name = format!("links={links} per_link_symbols={} (level {level})", syms.len());
        Self { links, syms, name }
    }

    fn decode(&self, mut e: usize) -> Vec<Sym> {
        let k = self.syms.len();
        let mut v = Vec::with_capacity(self.links);
        for _ in 0..self.links {
            v.push(self.syms[e % k]);
            e /= k;
        }
        v
    }
}

fn build_templates() -> Vec<SrtlaConnection> {
    set_now(T0);
    let mut out = Vec::new();
    // Ok: constant 50 ms
    let mut c = live_conn(0, T0);
    for i in 0..30 {
        c.rtt.update_estimate(50, T0 + i);
    }
    assert!(!c.queue_building_suspected());
    assert!((c.get_smooth_rtt_ms() - 50.0).abs() < 1.0);
    out.push(c);
    // Over: constant 6000 ms (above every possible tier: the budget caps at 5000, the widest tier at 3000)
    let mut c = live_conn(0, T0);
    for i in 0..30 {
        c.rtt.update_estimate(6000, T0 + i);
    }
    assert!(!c.queue_building_suspected());
    assert!(c.get_smooth_rtt_ms() > 5000.0);
    out.push(c);
    // Queue: long 50 ms floor, then a slow standing-queue ramp (fast floor lifts above the slow floor)
    let mut c = live_conn(0, T0);
    for i in 0..40 {
        c.rtt.update_estimate(50, T0 + i);
    }
    let mut r = 50u64;
    for i in 0..40 {
        r += 1;
        c.rtt.update_estimate(r, T0 + 100 + i);
    }
    assert!(
        c.queue_building_suspected(),
        "ramp did not trip the real queue-building detector"
    );
    assert!(c.get_smooth_rtt_ms() < 200.0);
    out.push(c);
    out
}

impl Model for M {
    type S = St;
    type W = W;

    fn worker(&self) -> W {
        W {
            tmpl: build_templates(),
        }
    }
    fn n_inits(&self) -> usize {
        1
    }
    fn init_name(&self, _i: usize) -> String {
        "fresh filter".into()
    }
    fn init(&self, _w: &mut W, _i: usize) -> St {
        St {
            filter: WeakLinkFilter::new(),
            mon: vec![LinkMon::default(); self.links],
        }
    }
    fn n_events(&self) -> usize {
        self.syms.len().pow(self.links as u32)
    }
    fn event_name(&self, e: usize) -> String {
        format!("{:?}", self.decode(e))
    }

    fn step(&self, w: &mut W, s: &mut St, e: usize) -> Result<(), Fail> {
        let syms = self.decode(e);
        let mut conns: Vec<SrtlaConnection> = Vec::new();
        let mut who: Vec<usize> = Vec::new();
        for (l, sy) in syms.iter().enumerate() {
            let mut c = match sy {
                Sym::Absent => continue,
                Sym::Down => {
                    let mut c = w.tmpl[0].clone();
                    c.connected = false;
                    c.bitrate.current_bitrate_bps = 500_000.0;
                    c
                }
                Sym::Up(b, r) => {
                    let mut c = w.tmpl[match r {
                        Rtt::Ok => 0,
                        Rtt::Over => 1,
                        Rtt::Queue => 2,
                    }]
                    .clone();
                    c.connected = true;
                    c.bitrate.current_bitrate_bps = *b as f64;
                    c
                }
            };
            c.conn_id = 1000 + l as u64;
            conns.push(c);
            who.push(l);
        }
        let res = s.filter.classify(&conns);
        if res.per_link.len() != conns.len() {
            return Err(Fail::new(
                "verdict-count",
                format!("classify returned {} verdicts for {} links", res.per_link.len(), conns.len()),
            ));
        }
        // independent view of this tick
        let total: f64 = conns
            .iter()
            .filter(|c| c.connected)
            .map(|c| c.bitrate.current_bitrate_bps)
            .sum();
        let n_conn = conns.iter().filter(|c| c.connected).count() as u64;
        let bypass = total < 100_000.0 || n_conn == 0;
        let mut judged = vec![false; self.links];
        for (ci, c) in conns.iter().enumerate() {
            let l = who[ci];
            let Some(v) = res.per_link.iter().find(|x| x.conn_id == c.conn_id) else {
                return Err(Fail::new("verdict-missing", format!("no verdict for link {l}")));
            };
            let ctx = || format!("tick inputs {syms:?}, link {l}: verdict weak={} reason={:?} share={}‰", v.weak, v.reason, v.share_permille);
            // R1: never weak while disconnected or under the floor
            if v.weak && (!c.connected || bypass) {
                return Err(Fail::new(
                    "weak-while-disconnected-or-under-floor",
                    format!("{} (connected={}, total={total})", ctx(), c.connected),
                ));
            }
            if !c.connected || bypass {
                continue;
            }
            judged[l] = true;
            let m = &s.mon[l];
            let share = ((c.bitrate.current_bitrate_bps * 1000.0) / total).floor().clamp(0.0, 1000.0) as u64;
            let enter = 250 / n_conn;
            let leave = 750 / n_conn;
            let signal = matches!(syms[l], Sym::Up(_, Rtt::Over)) || c.queue_building_suspected();
            let delay_reason = matches!(v.reason, WeakReason::HighRtt | WeakReason::QueueBuilding);
            let share_reason = matches!(v.reason, WeakReason::LowShare | WeakReason::NoTraffic);
            // R2: a delay verdict needs the signal on two consecutive judged ticks
            if v.weak && delay_reason && !(signal && m.prev_signal) {
                return Err(Fail::new(
                    "delay-weak-without-two-tick-signal",
                    format!("{} (signal now={signal}, previous tick={})", ctx(), m.prev_signal),
                ));
            }
            if v.weak && !delay_reason && !share_reason {
                return Err(Fail::new("weak-without-reason", ctx()));
            }
            // R3: probation after at most 15 consecutive share-weak verdicts
            if m.probation_owed > 0 && v.weak {
                return Err(Fail::new(
                    "no-probation-after-15-share-weak-verdicts",
                    format!("{} ({} forced not-weak verdicts still owed)", ctx(), m.probation_owed),
                ));
            }
            if v.weak && share_reason && m.share_run >= 15 {
                return Err(Fail::new(
                    "more-than-15-consecutive-share-weak-verdicts",
                    format!("{} (run {})", ctx(), m.share_run + 1),
                ));
            }
            // R4: enter / leave thresholds
            if v.weak && v.reason == WeakReason::LowShare {
                let need = if m.prev_weak == Some(true) { leave } else { enter };
                if share >= need {
                    return Err(Fail::new(
                        "low-share-verdict-above-threshold",
                        format!("{} (share {share}‰, threshold {need}‰, previously weak={:?})", ctx(), m.prev_weak),
                    ));
                }
            }
            if !v.weak && m.prev_weak == Some(true) && m.probation_owed == 0 {
                // left weak outside probation: must have reached 3/4 of fair share
                if share < leave || c.bitrate.current_bitrate_bps == 0.0 {
                    return Err(Fail::new(
                        "left-weak-below-leave-threshold",
                        format!("{} (share {share}‰ < leave {leave}‰)", ctx()),
                    ));
                }
            }
            if v.weak && v.reason == WeakReason::NoTraffic && c.bitrate.current_bitrate_bps != 0.0 {
                return Err(Fail::new("no-traffic-with-traffic", ctx()));
            }
            // update the monitor
            let m = &mut s.mon[l];
            if m.probation_owed > 0 {
                m.probation_owed -= 1;
                m.share_run = 0;
            } else if v.weak && share_reason {
                m.share_run += 1;
                if m.share_run == 15 {
                    m.share_run = 0;
                    m.probation_owed = 3;
                }
            } else {
                m.share_run = 0;
            }
            m.prev_weak = Some(v.weak);
            m.prev_signal = signal;
        }
        for l in 0..self.links {
            if !judged[l] {
                // disconnected / absent / bypassed: the statement's runs are
                // "while the link stays connected and classification is not bypassed"
                s.mon[l] = LinkMon::default();
            }
        }
        Ok(())
    }

    fn fingerprint(&self, s: &St) -> u64 {
        engine::hash_of(&self.canon(s))
    }
}

impl Canon for M {
    fn canon(&self, s: &St) -> Vec<u8> {
        let mut out = Vec::new();
        // filter memory; the delay streak is only ever compared with >= 2
        // (WEAK_SUSTAIN_TICKS) and incremented, so 2 and anything above it
        // have identical futures
        let fp = s.filter.verif_private();
        for l in 0..self.links {
            let id = 1000 + l as u64;
            let e = fp.iter().find(|x| x.0 == id);
            let (pw, ds, ws, pt) = e.map(|x| (x.1, x.2.min(2), x.3, x.4)).unwrap_or((false, 0, 0, 0));
            out.extend_from_slice(&[pw as u8, ds as u8, ws.min(255) as u8, pt.min(255) as u8]);
            let m = &s.mon[l];
            out.extend_from_slice(&[
                match m.prev_weak {
                    None => 2,
                    Some(b) => b as u8,
                },
                m.prev_signal as u8,
                m.share_run.min(255) as u8,
                m.probation_owed as u8,
            ]);
        }
        out
    }
}

fn configs(tier: Tier) -> Vec<(M, usize, usize)> {
    // (model, max_depth, max_states)
    if tier.is_quick() {
        vec![
            (M::new(1, 2), 64, 2_000_000),
            (M::new(2, 2), 64, 3_000_000),
            (M::new(3, 1), 64, 3_000_000),
            (M::new(4, 3), 64, 3_000_000),
        ]
    } else {
        vec![
            (M::new(1, 2), 200, 5_000_000),
            (M::new(2, 2), 200, 20_000_000),
            (M::new(3, 1), 200, 20_000_000),
            (M::new(3, 2), 200, 20_000_000),
            (M::new(4, 0), 200, 20_000_000),
            (M::new(4, 1), 200, 20_000_000),
        ]
    }
}

pub fn run(tier: Tier) -> Report {
    let mut rep = Report::new();
    // the filter lives in the housekeeping arm of the event loop and must keep its memory across reloads: judged on
    // the verdicts the real loop publishes
    crate::realx::run_for(&mut rep, "C17", tier.is_quick());
    let cfgs = configs(tier);
    let wall = Duration::from_secs(if tier.is_quick() { 35 } else { 1500 });
    let results: Vec<engine::BfsResult> = cfgs
        .iter()
        .map(|(m, depth, max_states)| engine::bfs_par(m, 0, *depth, *max_states, wall, 16))
        .collect();
    let mut probation_seen = false;
    for (i, r) in results.into_iter().enumerate() {
        let (m, _, _) = &cfgs[i];
        // non-vacuity: the search must have walked a 15-verdict run
        if r.depth_reached >= 16 {
            probation_seen = true;
        }
        if !r.frontier_empty {
            rep.exhaustive = false;
        }
        engine::fold_bfs(&mut rep, m, &m.name.clone(), r);
        rep.set(
            &format!("per_link_alphabet[{}]", m.name),
            json!(m.syms.iter().map(|s| format!("{s:?}")).collect::<Vec<_>>()),
        );
    }
    if !probation_seen {
        rep.machinery_errors.push(
            "no exploration reached depth 16: the 15-verdict probation rule was never exercised".into(),
        );
    }
    rep.set(
        "oracle",
        json!("per tick and link, from the monitor's own verdict history: weak => connected and total >= 100 kbit/s; delay reason => delay signal (RTT over every tier, or the RTT tracker's queue-building signal) on this and the previous judged tick; never a 16th consecutive LowShare/NoTraffic verdict and after the 15th the next three verdicts are not-weak; LowShare from not-weak needs share permille < floor(250/n), from weak < floor(750/n); leaving weak outside probation needs share >= floor(750/n)"),
    );
    rep.set(
        "canonical_key",
        json!("filter memory per link (prev_weak, min(delay_streak,2), weak_streak, probation_ticks) + monitor memory per link; fixpoint = frontier emptied"),
    );
    rep.assume("RTT classes are chosen so that the delay signal is unambiguous: 50 ms is inside every tier the cascade can pick and 6000 ms outside every one (budget caps at 5000 ms, widest tier 3000 ms); tier arithmetic itself is covered by the repository's unit tests");
    rep.assume("shares are compared at the integer-permille resolution the classifier reports");
    rep.assume("a link that is absent from the slice and a link that is present but disconnected are both exercised; both drop the link's history");
    rep
}

pub fn replay(v: &Value) -> Result<(), String> {
    if let Some(r) = crate::realx::replay_for("C17", v) {
        return r;
    }
    let mut ms = Vec::new();
    for tier in [Tier::Quick, Tier::Thorough] {
        for (m, _, _) in configs(tier) {
            ms.push((m.name.clone(), std::sync::Arc::new(m)));
        }
    }
    engine::replay_json(&ms, v)
}
