//! C16 — per-link CC soft cap and loss latch stay bounded and honest.
//!
//! History exploration of the real `LinkCcController::tick_all` /
//! `LinkCongestionState::tick`, driven tick by tick with a real connection
//! whose RTT tracker, byte / NAK counters and observed bitrate (the
//! controller's inputs) are chosen from a tick alphabet, from a library of
//! start states reached by scripted real histories. The oracle is a relation
//! between consecutive snapshots and that tick's inputs.

use std::sync::Arc;
use std::time::Duration;

use serde_json::{Value, json};
use srtla_core::connection::SrtlaConnection;
use srtla_core::selection::link_cc::{CcState, LinkCcController, LinkCcSnapshot};

use crate::engine::{self, Fail, Limits, Model, Plan};
use crate::evidence::{Report, Tier};
use crate::util::{T0, live_conn, set_now};

const MIN_T: u64 = 100_000;
const MAX_T: u64 = 200_000_000;

#[derive(Clone, Copy, Debug, PartialEq, Eq, Hash)]
pub struct Sym {
    /// 0 none, 1: 50 ms, 2: 80 ms (x1.6), 3: 110 ms (x2.2), 4: 130 ms (x2.6)
    rtt: u8,
    /// observed bitrate as a multiple of the current target, in tenths: 0, 2, 6, 10, 30, 1000
    obs_tenths: u32,
    /// 0 (0,0); 1 (1 MB,0); 2 (1 MB,3 NAK); 3 (1 MB,40 NAK); 4 (10 kB,200 NAK); 5 counters reset; 6 link absent
    traf: u8,
    dt: u32,
}

const RTT_MS: [u64; 5] = [0, 50, 80, 110, 130];

impl Sym {
    fn name(&self) -> String {
        let t = [
            "idle",
            "1MB/0nak",
            "1MB/3nak",
            "1MB/40nak",
            "10kB/200nak",
            "counters-reset",
            "link-absent",
        ][self.traf as usize];
        format!(
            "rtt={} obs={}xT {} dt={}",
            if self.rtt == 0 { "none".to_string() } else { format!("{}ms", RTT_MS[self.rtt as usize]) },
            self.obs_tenths as f64 / 10.0,
            t,
            self.dt
        )
    }
}

fn alphabet_full() -> Vec<Sym> {
    let mut v = Vec::new();
    for dt in [1000u32, 2500] {
        for traf in 0..6u8 {
            for obs in [0u32, 2, 6, 10, 30, 1000] {
                for rtt in 0..5u8 {
                    v.push(Sym { rtt, obs_tenths: obs, traf, dt });
                }
            }
        }
    }
    v.push(Sym { rtt: 1, obs_tenths: 10, traf: 6, dt: 1000 });
    v
}

/// 40 symbols for the pair / triple regimes.
fn alphabet_40() -> Vec<Sym> {
    let mut v = Vec::new();
    for traf in [1u8, 3] {
        for obs in [0u32, 2, 10, 30, 1000] {
            for rtt in [1u8, 2, 4, 0] {
                v.push(Sym { rtt, obs_tenths: obs, traf, dt: 1000 });
            }
        }
    }
    v
}

/// Loss-latch alphabet: clean / 5 % / ~100 % loss at two spacings and two loads.
fn alphabet_loss() -> Vec<Sym> {
    let mut v = Vec::new();
    for dt in [1000u32, 2500] {
        for traf in [4u8, 1, 3] {
            for obs in [10u32, 2] {
                v.push(Sym { rtt: 1, obs_tenths: obs, traf, dt });
            }
        }
    }
    v
}

fn alphabet_24() -> Vec<Sym> {
    let mut v = Vec::new();
    for traf in [1u8, 3, 5] {
        for obs in [0u32, 6, 30, 1000] {
            for rtt in [1u8, 4] {
                v.push(Sym { rtt, obs_tenths: obs, traf, dt: 1000 });
            }
        }
    }
    v
}

#[derive(Clone, Debug)]
struct Mon {
    ever_rtt: bool,
    seeded: bool,
    prev_target: u64,
    prev_state: CcState,
    prev_degraded: bool,
    high_since: Option<u64>,
    present: bool,
}

impl Default for Mon {
    fn default() -> Self {
        Self {
            ever_rtt: false,
            seeded: false,
            prev_target: MIN_T,
            prev_state: CcState::Bootstrap,
            prev_degraded: false,
            high_since: None,
            present: false,
        }
    }
}

#[derive(Clone)]
pub struct St {
    now: u64,
    ctl: LinkCcController,
    conn: SrtlaConnection,
    mon: Mon,
    /// for the pair/triple regimes: the symbols this history may use
    subset: Vec<u16>,
}

pub struct W {
    tmpl: Vec<srtla_core::connection::RttTracker>,
}

fn templates() -> Vec<srtla_core::connection::RttTracker> {
    let mut out = Vec::new();
    for r in RTT_MS {
        let mut c = live_conn(0, T0);
        if r > 0 {
            for i in 0..20 {
                c.rtt.update_estimate(r, T0 + i);
            }
            assert!((c.get_smooth_rtt_ms() - r as f64).abs() < 0.5);
        }
        out.push(c.rtt.clone());
    }
    out
}

/// One controller tick with the given inputs + the oracle.
fn tick(w: &W, s: &mut St, sym: Sym) -> Result<LinkCcSnapshot, Fail> {
    s.now += sym.dt as u64;
    set_now(s.now);
    if sym.traf == 6 {
        // link vanishes for one tick: the controller must forget it
        let m = s.ctl.tick_all(&[], s.now);
        if !m.is_empty() || !s.ctl.verif_ids().is_empty() {
            return Err(Fail::new("vanished-link-not-collected", format!("tick_all(&[]) left {:?}", s.ctl.verif_ids())));
        }
        s.mon = Mon::default();
        return Ok(LinkCcSnapshot {
            state: CcState::Bootstrap,
            climb_mode: Default::default(),
            target_bps: MIN_T,
            rtt_ewma_ms: 0.0,
            rtt_var_ms: 0.0,
            rtt_min_ms: 0.0,
            loss_permille: 0,
            loss_ewma: 0.0,
            loss_degraded: false,
        });
    }
    let t0 = s.mon.prev_target;
    let obs: u64 = ((t0 as u128 * sym.obs_tenths as u128) / 10).min(u64::MAX as u128 / 4) as u64;
    s.conn.rtt = w.tmpl[sym.rtt as usize].clone();
    s.conn.bitrate.current_bitrate_bps = obs as f64;
    match sym.traf {
        0 => {}
        1 => s.conn.bitrate.bytes_sent_total += 1_000_000,
        2 => {
            s.conn.bitrate.bytes_sent_total += 1_000_000;
            s.conn.congestion.nak_count += 3;
        }
        3 => {
            s.conn.bitrate.bytes_sent_total += 1_000_000;
            s.conn.congestion.nak_count += 40;
        }
        4 => {
            s.conn.bitrate.bytes_sent_total += 10_000;
            s.conn.congestion.nak_count += 200;
        }
        _ => {
            s.conn.bitrate.bytes_sent_total = 0;
            s.conn.congestion.nak_count = 0;
        }
    }
    let map = s.ctl.tick_all(std::slice::from_ref(&s.conn), s.now);
    let Some(snap) = map.get(&s.conn.conn_id).copied() else {
        return Err(Fail::new("no-snapshot", "tick_all returned no snapshot for a present link".into()));
    };
    let m = &mut s.mon;
    if sym.rtt != 0 {
        m.ever_rtt = true;
    }
    let t1 = snap.target_bps;
    let ctx = |what: &str| {
        format!(
            "{what}: target {t0} -> {t1}, state {:?} -> {:?}, inputs [{}], observed {obs} bit/s, loss_ewma {:.3}, seeded={}",
            m.prev_state,
            snap.state,
            sym.name(),
            snap.loss_ewma,
            m.seeded
        )
    };
    if !(MIN_T..=MAX_T).contains(&t1) {
        return Err(Fail::new("target-out-of-range", ctx("target outside [100 kbit/s, 200 Mbit/s]")));
    }
    for f in [snap.rtt_ewma_ms, snap.rtt_var_ms, snap.rtt_min_ms, snap.loss_ewma] {
        if !f.is_finite() {
            return Err(Fail::new("non-finite-snapshot", ctx("snapshot holds a non-finite float")));
        }
    }
    if !(0.0..=1.0).contains(&snap.loss_ewma) {
        return Err(Fail::new("loss-average-out-of-range", ctx("loss average outside [0,1]")));
    }
    if !m.ever_rtt && t1 != MIN_T {
        return Err(Fail::new("off-floor-without-rtt", ctx("target left the floor before any RTT sample existed")));
    }
    if t1 < t0 {
        let backoff = snap.state == CcState::BackingOff;
        let drain_entry = snap.state == CcState::Drain && m.prev_state != CcState::Drain;
        if backoff {
            let lo = ((t0 as u128 * 850 / 1000) as u64).max(MIN_T);
            if t1 + 1 < lo {
                return Err(Fail::new("backoff-cut-deeper-than-0.85", ctx("back-off lowered the target below 0.85x")));
            }
            if t1 + 1 < obs.min(t0) {
                return Err(Fail::new("backoff-below-delivered-rate", ctx("back-off lowered the target below the measured rate")));
            }
        } else if drain_entry {
            let lo = ((t0 as u128 * 750 / 1000) as u64).max(MIN_T);
            if t1 + 1 < lo {
                return Err(Fail::new("drain-cut-deeper-than-0.75", ctx("drain entry lowered the target below 0.75x")));
            }
        } else if snap.state == CcState::Drain {
            return Err(Fail::new("drain-cut-more-than-once", ctx("target lowered while staying in drain")));
        } else {
            return Err(Fail::new("target-lowered-outside-backoff-or-drain-entry", ctx("target lowered")));
        }
    }
    if t1 > t0 {
        if snap.state == CcState::BackingOff && m.seeded {
            return Err(Fail::new("backoff-raised-target", ctx("a back-off raised the target")));
        }
        if m.seeded {
            let cap = (t0 as u128 * 1060 / 1000) as u64 + 1;
            if t1 > cap {
                let key = if t0 == MIN_T { "reseeded-from-floor" } else { "growth-above-6-percent" };
                return Err(Fail::new(key, ctx("target grew by more than 6% in one tick after its initial seeding")));
            }
            if t1 > obs.saturating_mul(2).saturating_add(1) {
                return Err(Fail::new("growth-beyond-twice-measured", ctx("target grew beyond twice the measured rate")));
            }
        } else {
            let base = obs.max(1_000_000);
            let cap = (base as u128 * 1060 / 1000) as u64 + 1;
            if t1 > cap {
                return Err(Fail::new("seed-above-measured", ctx("initial seed exceeds max(measured, 1 Mbit/s) + 6%")));
            }
        }
    }
    // loss-degraded latch, judged against the monitor's own record of the reported loss average
    if snap.state != CcState::Bootstrap {
        if snap.loss_ewma > 0.55 {
            if m.high_since.is_none() {
                m.high_since = Some(s.now);
            }
        } else {
            m.high_since = None;
        }
    }
    if snap.loss_degraded && !m.prev_degraded {
        let ok = m.high_since.is_some_and(|h| s.now - h >= 4000);
        if !ok {
            return Err(Fail::new(
                "loss-latch-engaged-early",
                ctx(&format!("loss-degraded latched; loss average above 0.55 since {:?} (now {})", m.high_since, s.now)),
            ));
        }
    }
    if !snap.loss_degraded && m.prev_degraded && !(snap.loss_ewma < 0.25) {
        return Err(Fail::new("loss-latch-cleared-early", ctx("loss-degraded cleared with the loss average still >= 0.25")));
    }
    if m.ever_rtt {
        m.seeded = true;
    }
    m.prev_target = t1;
    m.prev_state = snap.state;
    m.prev_degraded = snap.loss_degraded;
    m.present = true;
    Ok(snap)
}

// ----------------------------------------------------------------------------
// start-state library (scripted real histories)

const START_NAMES: [&str; 8] = [
    "fresh",
    "seeded-1Mbit",
    "seeded-50Mbit",
    "at-ceiling",
    "at-floor-via-drain-reentries",
    "at-floor-via-backoff",
    "loss-latch-engaged",
    "not-my-loss-verdict-held",
];

fn sym(rtt: u8, obs_tenths: u32, traf: u8) -> Sym {
    Sym { rtt, obs_tenths, traf, dt: 1000 }
}

/// Build start state `i`; `None` if the scripted history did not get there
/// (recorded in the evidence; never an oracle failure by itself).
fn build_start(w: &W, i: usize) -> Option<St> {
    build_start_r(w, i).ok()
}

fn build_start_r(w: &W, i: usize) -> Result<St, String> {
    set_now(T0);
    let mut s = St {
        now: T0,
        ctl: LinkCcController::new(),
        conn: live_conn(0, T0),
        mon: Mon::default(),
        subset: Vec::new(),
    };
    // failures inside a script are oracle failures of the prefix: surface them
    // when that start state is used (the caller re-runs the script under the oracle)
    let t = |s: &mut St, x: Sym| tick(w, s, x).map_err(|f| format!("oracle failed inside the script: [{}] {}", f.key, f.msg));
    match i {
        0 => {}
        1 => {
            t(&mut s, sym(1, 10, 1))?;
            t(&mut s, sym(1, 10, 1))?;
        }
        2 => {
            // seed at 4 Mbit/s (outlier clamp), then climb on a loaded clean link
            t(&mut s, sym(1, 1000, 1))?;
            for _ in 0..60 {
                t(&mut s, sym(1, 10, 1))?;
                if s.mon.prev_target >= 50_000_000 {
                    break;
                }
            }
            if s.mon.prev_target < 50_000_000 {
                return Err("target state not reached".into());
            }
        }
        3 => {
            t(&mut s, sym(1, 1000, 1))?;
            for _ in 0..120 {
                t(&mut s, sym(1, 10, 1))?;
                if s.mon.prev_target >= MAX_T {
                    break;
                }
            }
            if s.mon.prev_target < MAX_T {
                return Err("target state not reached".into());
            }
        }
        4 => {
            t(&mut s, sym(1, 10, 1))?;
            for _ in 0..60 {
                // 2.6x after a >= 2 s gap: the EWMA snaps to the sample -> drain entry
                t(&mut s, Sym { rtt: 4, obs_tenths: 2, traf: 1, dt: 2500 })?;
                // back to 1.0x -> leaves drain
                t(&mut s, Sym { rtt: 1, obs_tenths: 2, traf: 1, dt: 2500 })?;
                if s.mon.prev_target == MIN_T {
                    break;
                }
            }
            if s.mon.prev_target != MIN_T {
                return Err("target state not reached".into());
            }
        }
        5 => {
            t(&mut s, sym(1, 10, 1))?;
            // loaded link whose loss keeps improving: every back-off is judged effective
            let mut nak = 400i32;
            for _ in 0..200 {
                s.conn.congestion.nak_count += nak;
                nak = (nak * 9 / 10).max(8);
                // 0.6 x target: loaded (>= 30 %) but delivering less than the cut
                t(&mut s, sym(1, 6, 1))?;
                if s.mon.prev_target == MIN_T {
                    break;
                }
            }
            if s.mon.prev_target != MIN_T {
                return Err("target state not reached".into());
            }
        }
        6 => {
            t(&mut s, sym(1, 10, 1))?;
            for _ in 0..12 {
                t(&mut s, sym(1, 2, 4))?; // starved link, almost everything lost
                if s.mon.prev_degraded {
                    break;
                }
            }
            if !s.mon.prev_degraded {
                return Err("target state not reached".into());
            }
        }
        _ => {
            t(&mut s, sym(1, 10, 1))?;
            // loaded link with steady 5 % loss: the cut does not move the loss
            for _ in 0..8 {
                t(&mut s, sym(1, 10, 3))?;
            }
            let held = s
                .ctl
                .verif_state(s.conn.conn_id)
                .map(|c| c.verif_private().loss_uncongestive)
                .unwrap_or(false);
            if !held {
                return Err("target state not reached".into());
            }
        }
    }
    Ok(s)
}

pub struct M {
    name: String,
    alphabet: Vec<Sym>,
    /// start state indices used
    starts: Vec<usize>,
    /// 0 = plain alphabet; 2 / 3 = every history uses at most that many distinct symbols
    subset_size: usize,
    subsets: Vec<Vec<u16>>,
}

impl M {
    fn new(name: &str, alphabet: Vec<Sym>, starts: Vec<usize>, subset_size: usize) -> Self {
        let n = alphabet.len();
        let mut subsets = Vec::new();
        if subset_size == 2 {
            for a in 0..n {
                for b in (a + 1)..n {
                    subsets.push(vec![a as u16, b as u16]);
                }
            }
        } else if subset_size == 3 {
            for a in 0..n {
                for b in (a + 1)..n {
                    for c in (b + 1)..n {
                        subsets.push(vec![a as u16, b as u16, c as u16]);
                    }
                }
            }
        }
        Self {
            name: format!("{name}/starts={}", starts.len()),
            alphabet,
            starts,
            subset_size,
            subsets,
        }
    }
}

impl Model for M {
    type S = Option<St>;
    type W = W;

    fn worker(&self) -> W {
        W { tmpl: templates() }
    }
    fn n_inits(&self) -> usize {
        if self.subset_size == 0 {
            self.starts.len()
        } else {
            self.starts.len() * self.subsets.len()
        }
    }
    fn init_name(&self, i: usize) -> String {
        if self.subset_size == 0 {
            START_NAMES[self.starts[i]].to_string()
        } else {
            let st = self.starts[i % self.starts.len()];
            let sub = &self.subsets[i / self.starts.len()];
            format!(
                "{} using only {:?}",
                START_NAMES[st],
                sub.iter().map(|x| self.alphabet[*x as usize].name()).collect::<Vec<_>>()
            )
        }
    }
    fn init(&self, w: &mut W, i: usize) -> Option<St> {
        let (st, sub) = if self.subset_size == 0 {
            (self.starts[i], Vec::new())
        } else {
            (
                self.starts[i % self.starts.len()],
                self.subsets[i / self.starts.len()].clone(),
            )
        };
        let mut s = build_start(w, st)?;
        s.subset = sub;
        Some(s)
    }
    fn n_events(&self) -> usize {
        if self.subset_size == 0 {
            self.alphabet.len()
        } else {
            self.subset_size
        }
    }
    fn event_name(&self, e: usize) -> String {
        if self.subset_size == 0 {
            self.alphabet[e].name()
        } else {
            format!("symbol#{e} of the subset")
        }
    }
    fn enabled(&self, s: &Option<St>, _e: usize) -> bool {
        s.is_some()
    }
    fn step(&self, w: &mut W, s: &mut Option<St>, e: usize) -> Result<(), Fail> {
        let s = s.as_mut().unwrap();
        let sym = if self.subset_size == 0 {
            self.alphabet[e]
        } else {
            self.alphabet[s.subset[e] as usize]
        };
        tick(w, s, sym).map(|_| ())
    }
    fn fingerprint(&self, s: &Option<St>) -> u64 {
        match s {
            None => 0,
            Some(s) => {
                let p = s.ctl.verif_state(s.conn.conn_id).map(|c| {
                    let v = c.verif_private();
                    (
                        c.target_bps,
                        c.state as u8,
                        v.loss_degraded,
                        v.loss_uncongestive,
                        v.backoff_ticks,
                        v.fast_recovery_ticks,
                        v.loss_ewma.to_bits(),
                        v.rtt_ewma_ms.to_bits(),
                    )
                });
                engine::hash_of(&p)
            }
        }
    }
}

fn models(tier: Tier) -> Vec<(String, Arc<M>, Vec<Plan>)> {
    let all: Vec<usize> = (0..8).collect();
    let mut out: Vec<(Arc<M>, Vec<Plan>)> = Vec::new();
    if tier.is_quick() {
        out.push((
            Arc::new(M::new("full-alphabet", alphabet_full(), all.clone(), 0)),
            vec![Plan::Full { depth: 2 }],
        ));
        out.push((
            Arc::new(M::new("alphabet-24", alphabet_24(), all.clone(), 0)),
            vec![Plan::Full { depth: 4 }],
        ));
        out.push((
            Arc::new(M::new("loss-alphabet", alphabet_loss(), vec![1, 6], 0)),
            vec![Plan::Full { depth: 6 }],
        ));
        out.push((
            Arc::new(M::new("pairs-of-40", alphabet_40(), vec![0, 1, 4, 5, 7], 2)),
            vec![Plan::Full { depth: 13 }],
        ));
    } else {
        out.push((
            Arc::new(M::new("full-alphabet", alphabet_full(), all.clone(), 0)),
            vec![Plan::Full { depth: 3 }],
        ));
        out.push((
            Arc::new(M::new("alphabet-24", alphabet_24(), all.clone(), 0)),
            vec![Plan::Full { depth: 5 }],
        ));
        out.push((
            Arc::new(M::new("loss-alphabet", alphabet_loss(), vec![0, 1, 6, 7], 0)),
            vec![Plan::Full { depth: 8 }],
        ));
        out.push((
            Arc::new(M::new("pairs-of-40", alphabet_40(), all.clone(), 2)),
            vec![Plan::Full { depth: 16 }],
        ));
        out.push((
            Arc::new(M::new("triples-of-40", alphabet_40(), vec![0, 1, 4, 5], 3)),
            vec![Plan::Full { depth: 9 }],
        ));
    }
    out.into_iter().map(|(m, p)| (m.name.clone(), m, p)).collect()
}

pub fn run(tier: Tier) -> Report {
    let mut rep = Report::new();
    // the controller is stepped by the housekeeping arm of the event loop: once per pass, after the pass has
    // measured throughput; judged on what the real loop publishes
    crate::realx::run_for(&mut rep, "C16", tier.is_quick());
    // which start states the scripted histories reach on this tree
    let w = W { tmpl: templates() };
    let mut reached = Vec::new();
    for i in 0..START_NAMES.len() {
        let r = build_start_r(&w, i);
        let ok = r.is_ok();
        reached.push(json!({"start": START_NAMES[i], "reached": ok}));
        if let Err(why) = r {
            rep.observe(format!(
                "start state '{}' was not reached by its scripted history on this tree (it is skipped): {why}",
                START_NAMES[i]
            ));
        }
    }
    let n_reached = reached.iter().filter(|r| r["reached"] == json!(true)).count();
    rep.set("start_states", json!(reached));
    if n_reached < 5 {
        rep.machinery_errors.push(format!(
            "only {n_reached} of {} start states were reached by their scripted histories",
            START_NAMES.len()
        ));
    }
    let lim = Limits {
        wall: Duration::from_secs(if tier.is_quick() { 40 } else { 1500 }),
        ..Default::default()
    };
    for (label, m, plans) in models(tier) {
        for plan in plans {
            let ex = engine::explore(&*m, &plan, &lim);
            engine::fold(&mut rep, &*m, &format!("{label} {}", plan.describe()), &plan, ex);
        }
    }
    rep.set(
        "alphabet_full",
        json!("RTT {none,50,80,110,130 ms} x observed bitrate {0,0.2,0.6,1,3,100} x current target x traffic {(0,0),(1MB,0),(1MB,3),(1MB,40),(10kB,200),counters reset} x dt {1000,2500} + link-absent = 361 symbols"),
    );
    rep.set(
        "alphabet_40",
        json!(alphabet_40().iter().map(|s| s.name()).collect::<Vec<_>>()),
    );
    rep.set(
        "oracle",
        json!("per tick, from consecutive snapshots and the tick's inputs: 100k<=target<=200M; target==100k while no RTT sample ever existed; target falls only in a BackingOff tick (>= max(0.85 t,100k)-1, >= min(observed,t)-1, never raised) or on the tick that enters Drain (>= 0.75 t); after the seeding tick growth <= 6% + 1 and never beyond 2x observed; seed <= 1.06 max(observed,1M); loss_degraded rises only after the reported loss average stayed > 0.55 on every tick of a span >= 4000 ms and falls only on a tick with average < 0.25; all floats finite; a vanished link is forgotten"),
    );
    rep.assume("observed bitrate symbols are multiples of the current target (so the 30% load gate and the 2x-measured clamp are straddled in every state); RTT inputs go through the real Kalman tracker (constant-sample templates)");
    rep.assume("exact for the enumerated inputs only (floating point); no claim for other real values");
    rep
}

pub fn replay(v: &Value) -> Result<(), String> {
    if let Some(r) = crate::realx::replay_for("C16", v) {
        return r;
    }
    let mut ms = Vec::new();
    for tier in [Tier::Quick, Tier::Thorough] {
        for (l, m, _) in models(tier) {
            ms.push((l, m));
        }
    }
    engine::replay_json(&ms, v)
}
