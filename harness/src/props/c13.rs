//! C13 — stall latch: quick to drop, conservative to rejoin, never blind.
//!
//! History exploration of timed traces over 2..3 real links. Scheduling
//! decisions are direct calls of the real `select_connection_idx`; proof /
//! hearing events go through the real shell function `handle_uplink_packet`
//! (so both proof-stamping sites — the earned SRTLA ACK in core and the
//! keepalive echo in the shell — are the real ones); an independent temporal
//! monitor keeps its own run-start and recomputes the staleness window.

use std::collections::HashMap;
use std::sync::Arc;
use std::sync::atomic::{AtomicU64, Ordering};
use std::time::Duration;

use serde_json::{Value, json};
use smallvec::SmallVec;
use srtla_core::config_snapshot::ConfigSnapshot;
use srtla_core::connection::SrtlaConnection;
use srtla_core::mode::SchedulingMode;
use srtla_core::registration::SrtlaRegistrationManager;
use srtla_core::selection::select_connection_idx;
use srtla_send::sender::SequenceTracker;
use srtla_send::sender::verif_hooks::{ConnIoMap, UplinkPacket, handle_uplink_packet};

use crate::engine::{self, Fail, Limits, Model, Plan};
use crate::evidence::{Report, Tier};
use crate::util::{Rt, T0, live_conn, set_now};

pub static LATCH_RISE: AtomicU64 = AtomicU64::new(0);
pub static LATCH_FALL: AtomicU64 = AtomicU64::new(0);
pub static PULL_RISE: AtomicU64 = AtomicU64::new(0);
pub static PULL_FALL: AtomicU64 = AtomicU64::new(0);

#[derive(Clone, Copy, Debug, PartialEq)]
enum Ev {
    Sel(u64),
    Load(usize),
    Drain(usize),
    ProofAck(usize),
    KaSend(usize),
    KaEcho(usize),
    Hear(usize),
    Disc(usize),
    Reset(usize),
    GuardOff,
    GuardOn,
}

/// scripted start states that were not reached; a machinery error unless a violation explains it
static START_MISSED: std::sync::atomic::AtomicU64 = std::sync::atomic::AtomicU64::new(0);

#[derive(Clone, Debug, Default, PartialEq)]
struct LinkMon {
    latched: bool,
    pulled: bool,
    run_start: Option<u64>,
    gate_events: u64,
    pulls: u64,
    /// a reset / guard-off happened since the last select (edges are then exempt)
    exempt: bool,
    /// the monitor's own record of the last delivery proof (0 = none since the link was last reset): an earned
    /// SRTLA ACK or a completed keepalive round trip sets it, a reset clears it
    proof: u64,
}

#[derive(Clone)]
pub struct St {
    now: u64,
    links: Vec<SrtlaConnection>,
    mon: Vec<LinkMon>,
    next_seq: u32,
    guard: bool,
    last: Option<usize>,
    reg: SrtlaRegistrationManager,
}

#[derive(Clone, Copy, Debug)]
pub struct Setting {
    rtt: u64,
    min_in_flight: i32,
    ceiling: u64,
}

pub struct M {
    n: usize,
    set: Setting,
    events: Vec<Ev>,
    name: String,
}

pub struct W {
    rt: Rt,
    tracker: SequenceTracker,
    conn_io: ConnIoMap,
    instant_tx: tokio::sync::mpsc::UnboundedSender<(std::net::SocketAddr, SmallVec<u8, 64>)>,
    _instant_rx: tokio::sync::mpsc::UnboundedReceiver<(std::net::SocketAddr, SmallVec<u8, 64>)>,
}

impl M {
    fn new(n: usize, set: Setting, level: u8) -> Self {
        let mut events = vec![Ev::Sel(1000), Ev::Sel(250), Ev::Sel(2000)];
        for l in 0..n.min(2) {
            events.push(Ev::Load(l));
            events.push(Ev::ProofAck(l));
        }
        events.push(Ev::Sel(1));
        events.push(Ev::Sel(4000));
        for l in 0..n.min(2) {
            events.push(Ev::Drain(l));
            events.push(Ev::Hear(l));
        }
        if level >= 1 {
            events.push(Ev::Sel(500));
            for l in 0..n.min(2) {
                events.push(Ev::KaSend(l));
                events.push(Ev::KaEcho(l));
            }
            events.push(Ev::Disc(0));
            events.push(Ev::Reset(0));
            events.push(Ev::GuardOff);
            events.push(Ev::GuardOn);
        }
        if level >= 2 {
            for l in 2..n {
                events.push(Ev::Load(l));
                events.push(Ev::ProofAck(l));
                events.push(Ev::Hear(l));
            }
        }
        let name = format!(
            "links={n} rtt={} min_in_flight={} ceiling={} alphabet={}",
            set.rtt,
            set.min_in_flight,
            set.ceiling,
            events.len()
        );
        Self { n, set, events, name }
    }
    fn cfg(&self, guard: bool) -> ConfigSnapshot {
        ConfigSnapshot {
            mode: SchedulingMode::Enhanced,
            quality_enabled: true,
            stall_deselect: guard,
            stall_min_in_flight: self.set.min_in_flight,
            stall_ack_stale_ms: self.set.ceiling,
            conn_timeout_ms: 60_000,
        }
    }
    /// the monitor's own effective staleness window
    fn window(&self, c: &SrtlaConnection) -> u64 {
        let srtt = c.get_smooth_rtt_ms();
        if srtt <= 0.0 {
            return self.set.ceiling;
        }
        let w = (srtt.floor() as u64).saturating_mul(4);
        let w = if w < 1000 { 1000 } else { w };
        if w > self.set.ceiling { self.set.ceiling } else { w }
    }
    fn pull_window(&self, c: &SrtlaConnection) -> u64 {
        let srtt = c.get_smooth_rtt_ms();
        let base = if srtt <= 0.0 { 250 } else { ((srtt.floor() as u64) * 2).max(250) };
        base.min(self.window(c))
    }
}

impl M {
    fn init0(&self) -> St {
        set_now(T0);
        let mut links: Vec<SrtlaConnection> = (0..self.n).map(|l| live_conn(l, T0)).collect();
        if self.set.rtt > 0 {
            for c in links.iter_mut() {
                for i in 0..12 {
                    c.rtt.update_estimate(self.set.rtt, T0 - 100 + i);
                }
                // no RTT measurement is "recent": keepalives may arm a probe
                c.rtt.last_rtt_measurement_ms = T0 - 10_000;
            }
        }
        St {
            now: T0,
            mon: vec![LinkMon::default(); self.n],
            links,
            next_seq: 5000,
            guard: true,
            last: None,
            reg: SrtlaRegistrationManager::new(),
        }
    }
}

fn inject(w: &mut W, s: &mut St, l: usize, bytes: &[u8]) {
    let pkt = UplinkPacket {
        conn_id: s.links[l].conn_id,
        bytes: SmallVec::from_slice_copy(bytes),
    };
    let cfg = ConfigSnapshot::default();
    w.rt.rt.block_on(handle_uplink_packet(
        pkt,
        &mut s.links,
        &w.conn_io,
        &mut s.reg,
        &w.instant_tx,
        None,
        &w.rt.listener,
        &w.tracker,
        &cfg,
    ));
}

impl Model for M {
    type S = St;
    type W = W;
    fn worker(&self) -> W {
        let (tx, rx) = tokio::sync::mpsc::unbounded_channel();
        W {
            rt: Rt::new(),
            tracker: SequenceTracker::new(),
            conn_io: HashMap::new(),
            instant_tx: tx,
            _instant_rx: rx,
        }
    }
    fn n_inits(&self) -> usize {
        2
    }
    fn init_name(&self, i: usize) -> String {
        ["live links with RTT baseline", "link 0 loaded and latched (scripted: Load, ProofAck, Sel(4000) x n)"][i].into()
    }
    fn init(&self, w: &mut W, i: usize) -> St {
        let mut s = self.init0();
        if i == 1 {
            let find = |ev: Ev| self.events.iter().position(|e| *e == ev).unwrap();
            let mut script = vec![Ev::Load(0), Ev::ProofAck(0), Ev::Load(0)];
            script.extend([Ev::Sel(4000); 6]);
            for ev in script {
                if s.links[0].stall_latched() {
                    break;
                }
                if let Err(f) = self.step(w, &mut s, find(ev)) {
                    engine::prefix_fail(f);
                    break;
                }
            }
            if !s.links[0].stall_latched() {
                // not a verdict by itself: the histories go on from the state the script did reach
                START_MISSED.fetch_add(1, std::sync::atomic::Ordering::Relaxed);
            }
        }
        s
    }

    fn n_events(&self) -> usize {
        self.events.len()
    }
    fn event_name(&self, e: usize) -> String {
        format!("{:?}", self.events[e])
    }
    fn step(&self, w: &mut W, s: &mut St, e: usize) -> Result<(), Fail> {
        let ev = self.events[e];
        match ev {
            Ev::Sel(dt) => {
                s.now += dt;
                set_now(s.now);
                let cfg = self.cfg(s.guard);
                // facts before the call, read from raw public fields
                let pre: Vec<(i32, u64, Option<u64>, bool, u64, u64)> = s
                    .links
                    .iter()
                    .map(|c| {
                        (
                            c.in_flight_packets,
                            c.last_ack_or_rtt_sample_ms,
                            c.last_received,
                            c.connected,
                            self.window(c),
                            self.pull_window(c),
                        )
                    })
                    .collect();
                let r = select_connection_idx(&mut s.links, s.last, s.now, &cfg);
                if r.is_some() {
                    s.last = r;
                }
                for l in 0..self.n {
                    let c = &s.links[l];
                    let p = c.verif_private();
                    let latched = c.stall_latched();
                    let pulled = p.silence_pulled;
                    let (inflight, _stamp, heard, connected, win, pwin) = pre[l];
                    let m = s.mon[l].clone();
                    let proof = m.proof;
                    let now = s.now;
                    let guard = s.guard;
                    let ctx = |what: &str| {
                        format!(
                            "{what}: link {l} at +{} ms: in-flight {inflight}, proof age {}, heard age {:?}, connected {connected}, window {win}, pull window {pwin}, guard {}, monitor run-start {:?}",
                            now - T0,
                            if proof == 0 { "never".to_string() } else { format!("{}", now - proof) },
                            heard.map(|h| now - h),
                            guard,
                            m.run_start.map(|t| now - t)
                        )
                    };
                    let proof_fresh = proof != 0 && s.now - proof < win;
                    let proof_stale = proof != 0 && s.now - proof >= win;
                    if !s.guard {
                        if latched || pulled || c.is_stall_gated() {
                            return Err(Fail::new("guard-off-left-stall-state", ctx("guard off but latch / pull / gate still set")));
                        }
                    } else {
                        // latch rising edge
                        if latched && !m.latched {
                            if proof == 0 {
                                return Err(Fail::new("latched-without-any-proof", ctx("a link that never produced delivery proof was latched")));
                            }
                            if !proof_stale {
                                return Err(Fail::new("latched-with-fresh-proof", ctx("latched although the last proof is younger than the window")));
                            }
                            // "held by the silence pull" is judged at this decision (the pull's own release rule is
                            // applied first): a pull that this very decision releases does not hold the link
                            if !(inflight >= self.set.min_in_flight || pulled) {
                                return Err(Fail::new(
                                    "latched-without-backlog",
                                    ctx(&format!("latched without the configured backlog and without being held by the silence pull (pulled before this decision: {}, after: {pulled})", m.pulled)),
                                ));
                            }
                        }
                        // latch falling edge
                        if !latched && m.latched && !m.exempt {
                            let run_ok = proof_fresh && m.run_start.is_some_and(|t| s.now - t >= 2 * win);
                            if !run_ok {
                                return Err(Fail::new(
                                    "latch-released-early",
                                    ctx("latch released without delivery proof having stayed fresh at every decision for twice the window"),
                                ));
                            }
                        }
                        // silence-pull falling edge
                        if !pulled && m.pulled && !m.exempt {
                            let heard_again = heard.is_some_and(|h| s.now - h < pwin);
                            if !(heard_again || !connected) {
                                return Err(Fail::new("silence-pull-released-while-mute", ctx("silence pull released although the link was not heard from and is connected")));
                            }
                        }
                    }
                    if guard && !m.exempt {
                        if latched && !m.latched {
                            LATCH_RISE.fetch_add(1, Ordering::Relaxed);
                        }
                        if !latched && m.latched {
                            LATCH_FALL.fetch_add(1, Ordering::Relaxed);
                        }
                        if pulled && !m.pulled {
                            PULL_RISE.fetch_add(1, Ordering::Relaxed);
                        }
                        if !pulled && m.pulled {
                            PULL_FALL.fetch_add(1, Ordering::Relaxed);
                        }
                    }
                    // counters: exactly one per rising edge
                    let d_gate = p.stall_gate_events - m.gate_events;
                    let d_pull = p.silence_pulls - m.pulls;
                    let rise_latch = (latched && !m.latched) as u64;
                    let rise_pull = (pulled && !m.pulled) as u64;
                    // a latch may engage and be cleared by guard-off within one call only when the guard is off (then no rise)
                    if d_gate != rise_latch {
                        return Err(Fail::new("stall-gate-event-counter", ctx(&format!("stall_gate_events moved by {d_gate}, rising edges {rise_latch}"))));
                    }
                    if d_pull != rise_pull {
                        return Err(Fail::new("silence-pull-counter", ctx(&format!("silence_pulls moved by {d_pull}, rising edges {rise_pull}"))));
                    }
                    if c.is_stall_gated() && !(latched || pulled) {
                        return Err(Fail::new("gated-without-latch-or-pull", ctx("stall-gated without latch or pull")));
                    }
                    // monitor's own rejoin run
                    let was_latched = m.latched;
                    let m = &mut s.mon[l];
                    if latched {
                        if proof_fresh {
                            if m.run_start.is_none() || !was_latched {
                                m.run_start = Some(s.now);
                            }
                        } else {
                            m.run_start = None;
                        }
                        if !was_latched {
                            // freshly latched: proof is stale by the rising rule
                            m.run_start = None;
                        }
                    } else {
                        m.run_start = None;
                    }
                    m.latched = latched;
                    m.pulled = pulled;
                    m.gate_events = p.stall_gate_events;
                    m.pulls = p.silence_pulls;
                    m.exempt = false;
                }
            }
            Ev::Load(l) => {
                s.now += 1;
                set_now(s.now);
                let n = self.set.min_in_flight.clamp(1, 64);
                for _ in 0..n {
                    s.links[l].register_packet(s.next_seq as i32, s.now);
                    s.next_seq += 1;
                }
            }
            Ev::Drain(l) => {
                s.now += 1;
                set_now(s.now);
                // a cumulative SRT ACK arriving on link l: drains every link's backlog
                let mut p = vec![0u8; 20];
                p[0] = 0x80;
                p[1] = 0x02;
                p[16..20].copy_from_slice(&(s.next_seq + 10).to_be_bytes());
                inject(w, s, l, &p);
                s.next_seq += 20;
            }
            Ev::ProofAck(l) => {
                s.now += 1;
                set_now(s.now);
                let seq = s.next_seq;
                s.next_seq += 1;
                s.links[l].register_packet(seq as i32, s.now);
                let mut p = vec![0x91u8, 0x00, 0, 0];
                p.extend_from_slice(&seq.to_be_bytes());
                inject(w, s, l, &p);
                if s.links[l].last_ack_or_rtt_sample_ms != s.now {
                    return Err(Fail::new("earned-ack-did-not-stamp-proof", format!("link {l}: earned SRTLA ACK left the proof stamp at {}", s.links[l].last_ack_or_rtt_sample_ms)));
                }
                s.mon[l].proof = s.now;
            }
            Ev::KaSend(l) => {
                s.now += 1;
                set_now(s.now);
                let _ = s.links[l].keepalive_packet(s.now);
            }
            Ev::KaEcho(l) => {
                // the echo of a keepalive sent `rtt` ago (exactly the baseline: Kalman innovation 0)
                let rtt = self.set.rtt.max(1);
                s.now += 1;
                set_now(s.now);
                let mut p = vec![0x90u8, 0x00];
                p.extend_from_slice(&(s.now - rtt).to_be_bytes());
                let probing = s.links[l].rtt.waiting_for_keepalive_response;
                inject(w, s, l, &p);
                // a completed round trip (a probe was outstanding) is delivery proof
                if probing {
                    s.mon[l].proof = s.now;
                }
            }
            Ev::Hear(l) => {
                s.now += 1;
                set_now(s.now);
                // an unearned inbound datagram (SRT handshake type): liveness only
                inject(w, s, l, &[0x80, 0x00, 0, 0, 0, 0, 0, 0]);
            }
            Ev::Disc(l) => {
                // REG_ERR from the receiver
                inject(w, s, l, &[0x92, 0x10]);
            }
            Ev::Reset(l) => {
                s.links[l].mark_for_recovery();
                s.links[l].clear_pre_registration_state(s.now);
                s.links[l].connected = true;
                s.links[l].last_received = Some(s.now);
                // the reset itself clears latch and pull (the counters survive); a reset link has no delivery proof
                s.mon[l].proof = 0;
                s.mon[l].exempt = true;
                s.mon[l].run_start = None;
                s.mon[l].latched = false;
                s.mon[l].pulled = false;
            }
            // the setting is only consulted by the next scheduling decision
            Ev::GuardOff => s.guard = false,
            Ev::GuardOn => s.guard = true,
        }
        Ok(())
    }
    fn enabled(&self, s: &St, e: usize) -> bool {
        match self.events[e] {
            Ev::GuardOff => s.guard,
            Ev::GuardOn => !s.guard,
            Ev::Load(l) => s.links[l].in_flight_packets < 200,
            _ => true,
        }
    }
    fn fingerprint(&self, s: &St) -> u64 {
        let v: Vec<(bool, bool, bool, bool, u64, u64)> = s
            .links
            .iter()
            .map(|c| {
                let p = c.verif_private();
                (
                    c.is_stall_gated(),
                    c.stall_latched(),
                    p.silence_pulled,
                    c.in_flight_packets >= self.set.min_in_flight,
                    (s.now - c.last_ack_or_rtt_sample_ms.min(s.now)).min(20_000),
                    if p.stall_recovery_since_ms == 0 { 0 } else { (s.now - p.stall_recovery_since_ms).min(20_000) + 1 },
                )
            })
            .collect();
        engine::hash_of(&(v, s.guard))
    }
}

fn settings(tier: Tier) -> Vec<Setting> {
    let mut v = Vec::new();
    if tier.is_quick() {
        v.push(Setting { rtt: 100, min_in_flight: 32, ceiling: 3000 });
        v.push(Setting { rtt: 0, min_in_flight: 1, ceiling: 500 });
        v.push(Setting { rtt: 600, min_in_flight: 1, ceiling: 3000 });
        // a ceiling below the 1000 ms floor, with an RTT baseline
        v.push(Setting { rtt: 100, min_in_flight: 1, ceiling: 400 });
    } else {
        for rtt in [0u64, 20, 100, 250, 600, 2000] {
            for (min_in_flight, ceiling) in [(32, 3000u64), (1, 500), (1, 20_000), (32, 20_000)] {
                v.push(Setting { rtt, min_in_flight, ceiling });
            }
        }
    }
    v
}

fn alt_default(m: &M, dt: u64) -> Arc<dyn Fn(usize) -> usize + Send + Sync> {
    let pa = m.events.iter().position(|e| *e == Ev::ProofAck(0)).unwrap();
    let sel = m.events.iter().position(|e| *e == Ev::Sel(dt)).unwrap();
    Arc::new(move |pos| if pos % 2 == 0 { pa } else { sel })
}

fn models(tier: Tier) -> Vec<(String, Arc<M>, Vec<Plan>)> {
    let mut out = Vec::new();
    for set in settings(tier) {
        let d = 0usize;
        if tier.is_quick() {
            let m = Arc::new(M::new(2, set, 0));
            out.push((m.name.clone(), m, vec![Plan::Full { depth: 6 }]));
            let m = Arc::new(M::new(2, set, 1));
            let alt = alt_default(&m, 250);
            out.push((
                m.name.clone(),
                m,
                vec![
                    Plan::Full { depth: 4 },
                    Plan::Dev { k: 2, depth: 12, default: Arc::new(move |_| d) },
                    // proof, select(250), proof, select(250), ... : walks a full rejoin dwell
                    Plan::Dev { k: 2, depth: 26, default: alt },
                ],
            ));
        } else {
            let m = Arc::new(M::new(2, set, 0));
            out.push((m.name.clone(), m, vec![Plan::Full { depth: 7 }]));
            let m = Arc::new(M::new(2, set, 1));
            let alt = alt_default(&m, 250);
            let alt5 = alt_default(&m, 500);
            out.push((
                m.name.clone(),
                m,
                vec![
                    Plan::Full { depth: 5 },
                    Plan::Dev { k: 3, depth: 14, default: Arc::new(move |_| d) },
                    Plan::Dev { k: 3, depth: 26, default: alt.clone() },
                    Plan::Dev { k: 2, depth: 40, default: alt },
                    Plan::Dev { k: 2, depth: 40, default: alt5 },
                ],
            ));
            let m = Arc::new(M::new(3, set, 2));
            let alt = alt_default(&m, 250);
            out.push((
                m.name.clone(),
                m,
                vec![
                    Plan::Full { depth: 4 },
                    Plan::Dev { k: 3, depth: 12, default: Arc::new(move |_| d) },
                    Plan::Dev { k: 2, depth: 30, default: alt },
                ],
            ));
        }
    }
    out
}

pub fn run(tier: Tier) -> Report {
    let mut rep = Report::new();
    let lim = Limits {
        wall: Duration::from_secs(if tier.is_quick() { 40 } else { 2400 }),
        ..Default::default()
    };
    let mut seen_alpha = false;
    for (label, m, plans) in models(tier) {
        for plan in plans {
            let ex = engine::explore(&*m, &plan, &lim);
            engine::fold(&mut rep, &*m, &format!("{label} {}", plan.describe()), &plan, ex);
        }
        if !seen_alpha && m.events.len() > 12 {
            seen_alpha = true;
            rep.set("alphabet", json!((0..m.n_events()).map(|e| m.event_name(e)).collect::<Vec<_>>()));
        }
    }
    let edges = json!({
        "latch_rising_edges": LATCH_RISE.load(Ordering::Relaxed),
        "latch_falling_edges_by_dwell": LATCH_FALL.load(Ordering::Relaxed),
        "pull_rising_edges": PULL_RISE.load(Ordering::Relaxed),
        "pull_falling_edges": PULL_FALL.load(Ordering::Relaxed),
    });
    for k in ["latch_rising_edges", "latch_falling_edges_by_dwell", "pull_rising_edges", "pull_falling_edges"] {
        if edges[k] == json!(0) {
            rep.machinery_errors.push(format!("vacuous exploration: no {k} observed"));
        }
    }
    rep.set("edges_observed", edges);
    rep.set("settings", json!(settings(tier).iter().map(|s| format!("{s:?}")).collect::<Vec<_>>()));
    if START_MISSED.load(std::sync::atomic::Ordering::Relaxed) != 0 {
        rep.machinery_errors.push("the scripted latched start state was not reached: the histories from it were explored from whatever state the script did reach".into());
    }
    rep.set("oracle", json!("temporal monitor on every select, with its own run-start and its own window clamp(4 x floor(srtt), 1000, ceiling) (ceiling if no RTT; a ceiling below the floor wins): latch rising edge => backlog >= threshold or held by the silence pull, proof exists (the monitor's own record: set by an earned SRTLA ACK and by a completed keepalive round trip, cleared by a link reset), proof age >= window; never latched without proof; latch falling edge (no reset / guard-off since the previous select) => proof fresh at every select since the monitor's run-start and run >= 2 x window; silence-pull falling edge => heard within the pull window or disconnected; stall_gate_events / silence_pulls move by exactly one per rising edge; gated => latched or pulled; guard off => everything clear"));
    rep.assume("thresholds, ceiling and RTT baseline are fixed per trace; keepalive echoes measure exactly the baseline RTT so the smoothed RTT stays constant");
    rep.assume("proof / hear / drain / REG_ERR events are datagrams pushed through the real shell function handle_uplink_packet; scheduling decisions are direct calls of select_connection_idx (handle_srt_packet's other effects are C01/C04's subject)");
    rep
}

pub fn replay(v: &Value) -> Result<(), String> {
    let mut ms = Vec::new();
    for tier in [Tier::Quick, Tier::Thorough] {
        for (l, m, _) in models(tier) {
            ms.push((l, m));
        }
    }
    engine::replay_json(&ms, v)
}
