//! The streaming world model shared by C01, C04, C10 (and the C03 monitor
//! inside world explorations): the real shell state driven by client
//! datagrams, uplink datagrams, timer ticks, faults and config changes, with a
//! ledger of everything injected and a monitor of everything seen on the wire.

use std::collections::VecDeque;
use std::sync::Arc;

use srtla_core::connection::LinkPhase;
use srtla_send::config::DynamicConfig;
use srtla_send::control::dispatch;

use crate::engine::{self, Fail, Model};
use crate::sel::oracle_timed_out;
use crate::util::{T0, srt_data};
use crate::world::*;

#[derive(Clone, Copy, Debug, PartialEq)]
pub enum SEv {
    Cdata,
    Crtx,
    Cctl,
    Ctiny,
    Cmtu,
    Cburst(usize),
    Crit(u64),
    Tflush,
    Thk(u64),
    Adv(u64),
    UsrtAck(usize),
    UlaOwn(usize),
    UlaOther(usize),
    UnakSingle(usize),
    UnakDup(usize),
    /// NAK for the sequence number the client retransmitted last
    UnakRtx(usize),
    Uka(usize),
    Ureg3(usize),
    Uerr(usize),
    Fclose(usize),
    Fopen(usize),
    CfgMode,
    CfgStall,
    CfgQuality,
}

/// Which oracles a run evaluates.
#[derive(Clone, Copy, Debug, Default)]
pub struct Oracles {
    pub c01: bool,
    pub c03: bool,
    pub c04: bool,
    pub c10: bool,
    /// NAK attribution: while the harness's own record of who carried the unique copy is fresh, nobody else is charged
    pub c05: bool,
}

#[derive(Clone, Debug)]
pub struct Entry {
    pub bytes: Arc<Vec<u8>>,
    pub seq: Option<u32>,
}

#[derive(Clone, Debug, Default)]
pub struct LinkMonitor {
    /// ledger ids queued on this link and not yet seen on its wire, in queue order
    pub pending: VecDeque<usize>,
    /// highest ledger id seen on this link's wire
    pub last_wire_id: Option<usize>,
    /// data packets routed (anywhere) while this link was gated / probe copies it got meanwhile
    pub routed_while_gated: u64,
    pub probes_while_gated: u64,
    /// receiver socket closed at some point since the last reset: wire not observable
    pub blind: bool,
}

#[derive(Clone)]
pub struct SS {
    pub w: World,
    pub ledger: Vec<Entry>,
    pub mon: Vec<LinkMonitor>,
    pub next_seq: u32,
    pub last_keepalive: Vec<Option<Vec<u8>>>,
    pub last_nak: Option<u32>,
    /// number of the last SRTLA ACK injected
    pub last_sla: Option<u32>,
    /// the harness's own tracker: sequence number -> (conn_id of the link that got the unique copy last, when)
    pub carried_by: std::collections::BTreeMap<u32, (u64, u64)>,
    /// sequence number of the last client retransmission
    pub last_rtx: Option<u32>,
    /// classic reference model (C10): windows per link
    pub ref_windows: Vec<i32>,
    pub data_routed: u64,
    pub probes_sent: u64,
    pub gated_routes_seen: u64,
}

pub struct StreamModel {
    pub name: String,
    pub n: usize,
    pub events: Vec<SEv>,
    pub inits: Vec<(String, InitKind)>,
    pub or: Oracles,
}

#[derive(Clone, Copy, Debug, PartialEq)]
pub enum InitKind {
    /// S2: live links, RTT baseline, no traffic yet
    Live { classic: bool },
    /// S3: streaming, partly acknowledged
    Streaming { classic: bool },
    /// S4: link i stall-latched and gated
    Latched { link: usize },
    /// every link stall-latched: no healthy alternative, so none is gated
    AllLatched,
    /// link i gated by the fast silence pull only (loaded, proof fresh, not heard from for a moment): not latched
    Pulled { link: usize },
    /// S5: link i timed out, waiting for its reconnect back-off
    TimedOut { link: usize, classic: bool },
    /// S6: link i after REG_ERR
    AfterRegErr { link: usize, classic: bool },
    /// S3 with quality scoring off
    StreamingNoQuality,
    /// S3 in the high-load batch regime (32)
    StreamingHighLoad,
    /// S3 in the low-activity batch regime (4)
    StreamingLowLoad,
    /// S3 (classic, guard as given) with the window vector moved to an edge of its range: the floor region
    /// (1000, 1037, 1100, 1100: walked there by real NAK runs and global ACK steps) or the ceiling region
    /// (60000, 59999, 59972, 59972)
    WindowEdge { floor: bool },
}

fn set_classic(w: &World) {
    // through the real control dispatcher
    let r = dispatch(&w.config, None, None, r#"{"jsonrpc":"2.0","id":1,"method":"set_mode","params":{"mode":"classic"}}"#);
    assert!(r.is_some());
    let r = dispatch(&w.config, None, None, r#"{"jsonrpc":"2.0","id":2,"method":"set_stall_deselect","params":{"enabled":false}}"#);
    assert!(r.is_some());
}

pub fn ka_echo_for(bytes: &[u8]) -> Vec<u8> {
    bytes.to_vec()
}

impl StreamModel {
    fn fresh(&self, env: &mut Env, classic: bool) -> SS {
        let cfg = DynamicConfig::new();
        let (mut w, mut rec) = established(env, self.n, cfg, T0);
        if classic {
            set_classic(&w);
        }
        let mut last_keepalive = vec![None; self.n];
        // keepalive round trips (20 ms) until every link is Live (2 RTT probes >= 3 s apart, or the 5 s warming time-out)
        for _ in 0..8 {
            if w.connections.iter().all(|c| matches!(c.phase, LinkPhase::Live)) {
                break;
            }
            w.advance(1000);
            let o = w.arm_housekeeping(env);
            for (l, b) in &o.wire {
                if pkt_type(b) == Some(0x9000) && *l < self.n {
                    last_keepalive[*l] = Some(b.clone());
                }
            }
            let r = rec.replies(&o.wire);
            w.advance(20);
            deliver(env, &mut w, &r);
        }
        assert!(w.connections.iter().all(|c| matches!(c.phase, LinkPhase::Live)), "scripted prefix: links not Live");
        let ref_windows = w.connections.iter().map(|c| c.window).collect();
        SS {
            w,
            ledger: Vec::new(),
            mon: vec![LinkMonitor::default(); self.n],
            next_seq: 1000,
            last_keepalive,
            last_nak: None,
            last_sla: None,
            carried_by: Default::default(),
            last_rtx: None,
            ref_windows,
            data_routed: 0,
            probes_sent: 0,
            gated_routes_seen: 0,
        }
    }

    /// Run `ev` under the oracle as part of a scripted prefix.
    fn script(&self, env: &mut Env, s: &mut SS, ev: SEv) {
        if let Err(f) = self.apply(env, s, ev) {
            engine::prefix_fail(Fail::new(&f.key, format!("inside the scripted prefix of the start state, at {ev:?}: {}", f.msg)));
        }
    }

    fn stream(&self, env: &mut Env, s: &mut SS, packets: usize, ack: bool) {
        for k in 0..packets {
            self.script(env, s, SEv::Cdata);
            if k % 8 == 7 {
                self.script(env, s, SEv::Tflush);
                if ack {
                    for l in 0..self.n {
                        // acknowledge most of what each link holds
                        while s.w.connections[l].in_flight_packets > 3 {
                            self.script(env, s, SEv::UlaOwn(l));
                        }
                    }
                }
            }
        }
        self.script(env, s, SEv::Tflush);
    }

    pub fn build_init(&self, env: &mut Env, kind: InitKind) -> SS {
        match kind {
            InitKind::Live { classic } => self.fresh(env, classic),
            InitKind::Streaming { classic } => {
                let mut s = self.fresh(env, classic);
                self.stream(env, &mut s, 40, true);
                s
            }
            InitKind::StreamingNoQuality => {
                let mut s = self.fresh(env, false);
                s.w.config.set_quality_enabled(false);
                self.stream(env, &mut s, 40, true);
                s
            }
            InitKind::StreamingHighLoad | InitKind::StreamingLowLoad => {
                let mut s = self.fresh(env, false);
                let high = kind == InitKind::StreamingHighLoad;
                // real traffic volume over 2 s of virtual time, then a housekeeping pass picks the regime
                let per_tick = if high { 24 } else { 1 };
                for t in 0..(2000 / 15) {
                    for _ in 0..per_tick {
                        if high || t % 20 == 0 {
                            self.script(env, &mut s, SEv::Cmtu);
                        }
                    }
                    self.script(env, &mut s, SEv::Tflush);
                    for l in 0..self.n {
                        self.script(env, &mut s, SEv::UsrtAck(l));
                    }
                }
                for l in 0..self.n {
                    self.script(env, &mut s, SEv::Uka(l));
                }
                self.script(env, &mut s, SEv::Thk(100));
                for l in 0..self.n {
                    self.script(env, &mut s, SEv::Uka(l));
                }
                s
            }
            InitKind::Latched { link } => {
                let mut s = self.fresh(env, false);
                self.stream(env, &mut s, 40, true);
                // earn proof on `link`, then pile up a backlog on it that is never acknowledged
                s.w.config.set_conn_timeout_ms(60_000);
                for k in 0..40u32 {
                    let seq = s.next_seq;
                    s.next_seq += 1;
                    let p = srt_data(seq, false, 0x00f0_0000 + k, 64);
                    s.ledger.push(Entry { bytes: Arc::new(p.clone()), seq: Some(seq) });
                    let id = s.ledger.len() - 1;
                    s.w.connections[link].queue_data_packet(&p, Some(seq), s.w.now);
                    Arc::make_mut(&mut s.w.seq_tracker).insert(seq, s.w.connections[link].conn_id, s.w.now);
                    s.mon[link].pending.push_back(id);
                    if k % 16 == 15 {
                        self.script(env, &mut s, SEv::Tflush);
                    }
                }
                self.script(env, &mut s, SEv::Tflush);
                // 4 s of silence on `link` while the others stay heard
                for _ in 0..4 {
                    self.script(env, &mut s, SEv::Thk(1000));
                    for l in 0..self.n {
                        if l != link {
                            self.script(env, &mut s, SEv::Uka(l));
                        }
                    }
                }
                self.script(env, &mut s, SEv::Cdata);
                self.script(env, &mut s, SEv::Tflush);
                assert!(s.w.connections[link].stall_latched(), "scripted prefix: link {link} not latched");
                assert!(s.w.connections[link].is_stall_gated(), "scripted prefix: link {link} not gated");
                s
            }
            InitKind::WindowEdge { floor } => {
                let mut s = self.fresh(env, true);
                self.stream(env, &mut s, 40, true);
                let now = s.w.now;
                for (l, c) in s.w.connections.iter_mut().enumerate() {
                    if floor {
                        let mut k = 0;
                        let target = [1000, 1000, 1100, 1100][l.min(3)];
                        while c.window > target && k < 1000 {
                            let q = 500_000 + (l as i32) * 1000 + k;
                            c.register_packet(q, now);
                            c.handle_nak(q, now);
                            k += 1;
                        }
                        if l == 1 {
                            for _ in 0..37 {
                                c.handle_srtla_ack_global();
                            }
                        }
                    } else {
                        c.window = [60000, 59999, 59972, 59972][l.min(3)];
                    }
                }
                s.ref_windows = s.w.connections.iter().map(|c| c.window).collect();
                s
            }
            InitKind::Pulled { link } => {
                let mut s = self.fresh(env, false);
                self.stream(env, &mut s, 40, true);
                s.w.config.set_conn_timeout_ms(60_000);
                for k in 0..40u32 {
                    let seq = s.next_seq;
                    s.next_seq += 1;
                    let p = srt_data(seq, false, 0x00f1_0000 + k, 64);
                    s.ledger.push(Entry { bytes: Arc::new(p.clone()), seq: Some(seq) });
                    let id = s.ledger.len() - 1;
                    s.w.connections[link].queue_data_packet(&p, Some(seq), s.w.now);
                    Arc::make_mut(&mut s.w.seq_tracker).insert(seq, s.w.connections[link].conn_id, s.w.now);
                    s.mon[link].pending.push_back(id);
                    if k % 16 == 15 {
                        self.script(env, &mut s, SEv::Tflush);
                    }
                }
                self.script(env, &mut s, SEv::Tflush);
                // delivery proof on `link` (an earned SRTLA ACK), then everybody else is heard from for a while, `link` is not
                self.script(env, &mut s, SEv::UlaOwn(link));
                for _ in 0..3 {
                    self.script(env, &mut s, SEv::Adv(150));
                    for l in 0..self.n {
                        if l != link {
                            let pkt = [0x80u8, 0x06, 0, 0, 0, 0, 0, 0, 0, 0, 0, 0, 0, 0, 0, 0];
                            let _ = self.uplink(env, &mut s, l, &pkt);
                        }
                    }
                }
                self.script(env, &mut s, SEv::Cdata);
                let p = s.w.connections[link].verif_private();
                assert!(p.silence_pulled, "scripted prefix: link {link} not silence-pulled");
                assert!(!s.w.connections[link].stall_latched(), "scripted prefix: link {link} latched, meant to be pulled only");
                assert!(s.w.connections[link].is_stall_gated(), "scripted prefix: link {link} not gated");
                s
            }
            InitKind::AllLatched => {
                let mut s = self.fresh(env, false);
                self.stream(env, &mut s, 40, true);
                s.w.config.set_conn_timeout_ms(60_000);
                for link in 0..self.n {
                    for k in 0..40u32 {
                        let seq = s.next_seq;
                        s.next_seq += 1;
                        let p = srt_data(seq, false, 0x00f0_0000 + k + 64 * link as u32, 64);
                        s.ledger.push(Entry { bytes: Arc::new(p.clone()), seq: Some(seq) });
                        let id = s.ledger.len() - 1;
                        s.w.connections[link].queue_data_packet(&p, Some(seq), s.w.now);
                        Arc::make_mut(&mut s.w.seq_tracker).insert(seq, s.w.connections[link].conn_id, s.w.now);
                        s.mon[link].pending.push_back(id);
                        if k % 16 == 15 {
                            self.script(env, &mut s, SEv::Tflush);
                        }
                    }
                }
                self.script(env, &mut s, SEv::Tflush);
                for _ in 0..4 {
                    self.script(env, &mut s, SEv::Thk(1000));
                }
                self.script(env, &mut s, SEv::Cdata);
                self.script(env, &mut s, SEv::Tflush);
                assert!(s.w.connections.iter().all(|c| c.stall_latched()), "scripted prefix: not every link latched");
                assert!(s.w.connections.iter().all(|c| !c.is_stall_gated()), "scripted prefix: a link is gated although none is healthy");
                s
            }
            InitKind::TimedOut { link, classic } => {
                let mut s = self.fresh(env, classic);
                self.stream(env, &mut s, 16, true);
                for _ in 0..7 {
                    self.script(env, &mut s, SEv::Thk(1000));
                    for l in 0..self.n {
                        if l != link {
                            self.script(env, &mut s, SEv::Uka(l));
                        }
                    }
                }
                assert!(!s.w.connections[link].connected, "scripted prefix: link {link} still connected");
                s
            }
            InitKind::AfterRegErr { link, classic } => {
                let mut s = self.fresh(env, classic);
                self.stream(env, &mut s, 16, true);
                self.script(env, &mut s, SEv::Uerr(link));
                // one more inbound datagram on it: "heard", still disconnected
                self.script(env, &mut s, SEv::UsrtAck(link));
                s
            }
        }
    }
}

/// Independent wire classification.
#[derive(Debug, PartialEq)]
enum Wire {
    Reg1,
    Reg2,
    Keepalive,
    Client,
}
fn classify(b: &[u8]) -> Wire {
    match pkt_type(b) {
        Some(0x9200) if b.len() == 258 => Wire::Reg1,
        Some(0x9201) if b.len() == 258 => Wire::Reg2,
        Some(0x9000) => Wire::Keepalive,
        _ => Wire::Client,
    }
}

/// Number of datagrams in the link's batch queue, read off the queue itself (not through
/// `queued_count()`, which is code under test: the classic score's `queued` term).
fn qlen(c: &srtla_core::connection::SrtlaConnection) -> i32 {
    c.batch_sender.verif_lens().0 as i32
}

impl StreamModel {
    fn usable(&self, s: &SS, l: usize) -> bool {
        let c = &s.w.connections[l];
        let timeout = s.w.config.snapshot().conn_timeout_ms;
        !matches!(c.phase, LinkPhase::Registering) && c.connected && !oracle_timed_out(c, s.w.now, timeout)
    }

    /// One client datagram through arm 1 + all client-side oracles.
    fn client(&self, env: &mut Env, s: &mut SS, pkt: Vec<u8>, seq: Option<u32>) -> Result<(), Fail> {
        let n = self.n;
        let established = s.w.reg.has_connected;
        let usable: Vec<bool> = (0..n).map(|l| self.usable(s, l)).collect();
        let pre_q: Vec<i32> = s.w.connections.iter().map(|c| qlen(c)).collect();
        let pre_bytes: Vec<u64> = s.w.connections.iter().map(|c| c.bitrate.bytes_sent_total).collect();
        let pre_connected: Vec<bool> = s.w.connections.iter().map(|c| c.connected).collect();
        let pre_phase_reg: Vec<bool> = s.w.connections.iter().map(|c| matches!(c.phase, LinkPhase::Registering)).collect();
        let timeout = s.w.config.snapshot().conn_timeout_ms;
        let pre_timed_out: Vec<bool> = s.w.connections.iter().map(|c| oracle_timed_out(c, s.w.now, timeout)).collect();
        let snap = s.w.config.snapshot();
        let critical = s.w.critical.is_critical_now(s.w.now);
        // C10 reference choice, from the pre-state
        let ref_choice: Option<usize> = {
            let mut best: Option<usize> = None;
            let mut best_score = -1i64;
            for l in 0..n {
                if !usable[l] {
                    continue;
                }
                let c = &s.w.connections[l];
                let score = c.window as i64 / (c.in_flight_packets as i64 + qlen(c) as i64 + 1);
                if score > best_score {
                    best_score = score;
                    best = Some(l);
                }
            }
            best
        };
        s.ledger.push(Entry { bytes: Arc::new(pkt.clone()), seq });
        let id = s.ledger.len() - 1;
        let out = s.w.arm_client(env, &pkt);
        // which links got a copy: queue growth + what the threshold flush put on the wire
        let mut wire_n = vec![0i32; n];
        for (l, b) in &out.wire {
            if *l < n && classify(b) == Wire::Client {
                wire_n[*l] += 1;
            }
        }
        // which links got a copy: `queue_data_packet` accounts the datagram's bytes on the
        // link at queue time (and neither a flush nor a soft reset touches that counter)
        let mut got: Vec<usize> = Vec::new();
        for l in 0..n {
            let c = &s.w.connections[l];
            let grown = c.bitrate.bytes_sent_total.saturating_sub(pre_bytes[l]);
            if grown > 0 {
                if grown != pkt.len() as u64 {
                    return Err(Fail::new(
                        "copy-accounting",
                        format!("link {l}: {} bytes accounted for one {}-byte client datagram", grown, pkt.len()),
                    ));
                }
                got.push(l);
            }
        }
        let _ = (&pre_q, &wire_n);
        let unique = s.w.last_selected_idx.filter(|l| got.contains(l));
        if let (Some(q), Some(u)) = (seq, unique) {
            let id_u = s.w.connections[u].conn_id;
            let now_u = s.w.now;
            s.carried_by.insert(q, (id_u, now_u));
        }
        let ctx = |what: &str| {
            format!(
                "{what}: client datagram #{id} ({} bytes, seq {seq:?}, established {established}), copies queued on links {got:?}, unique copy on {unique:?}; usable {usable:?}; mode {:?}",
                pkt.len(),
                snap.mode
            )
        };
        if pkt.is_empty() {
            return Ok(());
        }
        // ---- C03 inside the world: no drop while a usable link exists
        if (self.or.c03 || self.or.c01) && established && usable.iter().any(|u| *u) && got.is_empty() {
            return Err(Fail::new("dropped-with-usable-link", ctx("datagram dropped although a usable uplink exists")));
        }
        // ---- bookkeeping of copies
        for l in &got {
            s.mon[*l].pending.push_back(id);
        }
        let is_data = seq.is_some();
        if is_data && unique.is_some() {
            s.data_routed += 1;
        }
        // ---- C01 rule 4: extra copies only on gated links, at most 1 per 100 routed data packets
        if self.or.c01 {
            if got.len() > 1 && !is_data {
                return Err(Fail::new("non-data-datagram-duplicated", ctx("a control datagram was sent on more than one link")));
            }
            for l in 0..n {
                let gated = s.w.connections[l].is_stall_gated() && s.w.connections[l].connected;
                if !gated {
                    s.mon[l].routed_while_gated = 0;
                    s.mon[l].probes_while_gated = 0;
                } else if is_data && unique.is_some() && unique != Some(l) {
                    s.mon[l].routed_while_gated += 1;
                }
            }
            for l in &got {
                if Some(*l) == unique {
                    continue;
                }
                let c = &s.w.connections[*l];
                if !established {
                    continue;
                }
                if !(c.is_stall_gated()) {
                    return Err(Fail::new("extra-copy-on-ungated-link", ctx(&format!("a second copy was queued on link {l}, which is not stall-gated"))));
                }
                s.mon[*l].probes_while_gated += 1;
                s.probes_sent += 1;
                let m = &s.mon[*l];
                if m.probes_while_gated > m.routed_while_gated.div_ceil(100).max(1) {
                    return Err(Fail::new(
                        "probe-cadence-exceeded",
                        ctx(&format!("link {l} got {} duplicate probes for {} data packets routed while it was gated", m.probes_while_gated, m.routed_while_gated)),
                    ));
                }
            }
            if established && got.len() >= 1 && unique.is_none() {
                return Err(Fail::new("no-unique-copy", ctx("copies were queued but none on the selected link")));
            }
        }
        // ---- C04: the unique copy only ever goes to an eligible uplink
        if self.or.c04 && established {
            if let Some(u) = unique {
                let gated_now = s.w.connections[u].is_stall_gated();
                if gated_now {
                    s.gated_routes_seen += 1;
                }
                let why = if pre_phase_reg[u] {
                    Some(("unique-copy-on-registering-link", "has not completed registration since its last reset"))
                } else if pre_timed_out[u] {
                    Some(("unique-copy-on-timed-out-link", "is timed out"))
                } else if gated_now {
                    Some(("unique-copy-on-stall-gated-link", "is stall-gated"))
                } else {
                    None
                };
                if let Some((key, txt)) = why {
                    let via_override = is_data && (critical || (pkt.len() >= 8 && pkt[4] & 0x04 != 0));
                    let key = if via_override { format!("{key}:priority-override") } else { key.to_string() };
                    return Err(Fail::new(&key, ctx(&format!("unique copy routed to link {u}, which {txt} (critical window {critical})"))));
                }
            }
        }
        // ---- C10: classic choice equals the reference rule
        if self.or.c10 && established && snap.mode.is_classic() && !snap.stall_deselect {
            if unique != ref_choice {
                let via_override = is_data && (critical || (pkt.len() >= 8 && pkt[4] & 0x04 != 0));
                let key = if via_override { "classic-choice-differs:priority-override" } else { "classic-choice-differs" };
                return Err(Fail::new(key, ctx(&format!("classic mode routed to {unique:?}, reference rule (first maximum of window/(in-flight+queued+1) over usable links) says {ref_choice:?}"))));
            }
        }
        let reset: Vec<bool> = (0..n).map(|l| pre_connected[l] && !s.w.connections[l].connected).collect();
        self.wire_check(s, &out, false, &reset)
    }

    /// Match what appeared on each link's wire against that link's pending queue.
    fn wire_check(&self, s: &mut SS, out: &Out, after_flush: bool, reset: &[bool]) -> Result<(), Fail> {
        if !self.or.c01 {
            // keep the pending queues in step even when C01 is not judged
            for l in 0..self.n {
                if after_flush || qlen(&s.w.connections[l]) == 0 {
                    s.mon[l].pending.clear();
                } else {
                    let q = qlen(&s.w.connections[l]) as usize;
                    while s.mon[l].pending.len() > q {
                        s.mon[l].pending.pop_front();
                    }
                }
            }
            return Ok(());
        }
        for (l, b) in &out.wire {
            let l = *l;
            if l >= self.n {
                continue;
            }
            if classify(b) != Wire::Client {
                continue;
            }
            // integrity + order + pairing: the next pending ledger entry of this link, byte for byte
            let Some(id) = s.mon[l].pending.pop_front() else {
                return Err(Fail::new(
                    "unknown-datagram-on-wire",
                    format!("link {l} carried a {}-byte datagram that no accepted client datagram accounts for: {:02x?}", b.len(), &b[..b.len().min(24)]),
                ));
            };
            let e = &s.ledger[id];
            if e.bytes.as_slice() != b.as_slice() {
                // find what it is, for the message
                let other = s.ledger.iter().position(|x| x.bytes.as_slice() == b.as_slice());
                let key = match other {
                    Some(_) => "wire-order-differs-from-arrival-order",
                    None => "forwarded-datagram-modified",
                };
                return Err(Fail::new(
                    key,
                    format!("link {l}: expected client datagram #{id} next, wire carried {} (len {} vs {})", other.map(|o| format!("#{o}")).unwrap_or("bytes matching no client datagram".into()), b.len(), e.bytes.len()),
                ));
            }
            if s.mon[l].last_wire_id.is_some_and(|p| p >= id) {
                return Err(Fail::new("wire-order-not-increasing", format!("link {l}: datagram #{id} after #{:?}", s.mon[l].last_wire_id)));
            }
            s.mon[l].last_wire_id = Some(id);
        }
        // queue / pending agreement and hold bound
        for l in 0..self.n {
            let c = &s.w.connections[l];
            let q = qlen(c) as usize;
            if q > 32 {
                return Err(Fail::new("queue-exceeds-one-batch", format!("link {l} holds {q} datagrams between flushes")));
            }
            let lens = c.batch_sender.verif_lens();
            if lens.0 != lens.1 || lens.1 != lens.2 {
                return Err(Fail::new("batch-vectors-out-of-step", format!("link {l}: queue/seq/time vectors have lengths {lens:?}")));
            }
            let open = s.w.rx_open[l];
            if !open {
                s.mon[l].blind = true;
            }
            if s.mon[l].blind || !open {
                // sends into a closed receiver are not observable: resynchronise on the real queue
                while s.mon[l].pending.len() > q {
                    s.mon[l].pending.pop_front();
                }
                if q == 0 && open {
                    s.mon[l].blind = false;
                }
                continue;
            }
            if s.mon[l].pending.len() < q {
                return Err(Fail::new("queue-holds-unaccounted-datagrams", format!("link {l}: {q} queued, {} accounted for", s.mon[l].pending.len())));
            }
            if s.mon[l].pending.len() > q {
                // accepted copies that are neither queued nor on the wire: only a reset / send failure excuses that
                if reset.get(l).copied().unwrap_or(false) {
                    while s.mon[l].pending.len() > q {
                        s.mon[l].pending.pop_front();
                    }
                } else {
                    let lost: Vec<usize> = s.mon[l].pending.iter().take(s.mon[l].pending.len() - q).copied().collect();
                    return Err(Fail::new(
                        "accepted-datagram-never-sent",
                        format!("link {l}: client datagrams {lost:?} left the queue without reaching the wire and the link was not reset"),
                    ));
                }
            }
            if after_flush && q != 0 && s.w.conn_io.contains_key(&c.conn_id) {
                return Err(Fail::new("flush-left-datagrams-queued", format!("link {l} still holds {q} datagrams after the flush tick")));
            }
        }
        Ok(())
    }

    fn uplink(&self, env: &mut Env, s: &mut SS, l: usize, bytes: &[u8]) -> Result<(), Fail> {
        let pre_w: Vec<i32> = s.w.connections.iter().map(|c| c.window).collect();
        let pre_log: Vec<Vec<i32>> = s.w.connections.iter().map(|c| c.packet_log.keys().copied().collect()).collect();
        let pre_nak: Vec<i32> = s.w.connections.iter().map(|c| c.congestion.nak_count).collect();
        let pre_connected: Vec<bool> = s.w.connections.iter().map(|c| c.connected).collect();
        let snap = s.w.config.snapshot();
        let out = s.w.arm_uplink(env, l, bytes);
        if self.or.c10 && snap.mode.is_classic() {
            self.c10_windows(s, l, bytes, &pre_w, &pre_log, &pre_nak)?;
        }
        if self.or.c05 && pkt_type(bytes) == Some(0x8003) && bytes.len() == 8 {
            let q = u32::from_be_bytes([bytes[4], bytes[5], bytes[6], bytes[7]]);
            let charged: Vec<usize> = (0..s.w.connections.len().min(pre_nak.len())).filter(|j| s.w.connections[*j].congestion.nak_count > pre_nak[*j]).collect();
            if charged.len() > 1 {
                return Err(Fail::new("nak-charged-to-more-than-one-link", format!("NAK {q}: links {charged:?} were charged")));
            }
            if let Some((owner, at)) = s.carried_by.get(&q).copied() {
                if s.w.now.saturating_sub(at) <= 5000 {
                    if let Some(c) = charged.first() {
                        if s.w.connections[*c].conn_id != owner {
                            let who = s.w.connections.iter().position(|c| c.conn_id == owner);
                            return Err(Fail::new(
                                "nak-charged-to-other-link-while-the-carrier-is-remembered",
                                format!("NAK {q}: the unique copy was last routed to link {who:?} {} ms ago, yet link {c} was charged", s.w.now - at),
                            ));
                        }
                    }
                }
            }
        }
        // REG3 re-registers the link (its queue is cleared); a teardown clears it too
        let ty = pkt_type(bytes);
        let reset: Vec<bool> = (0..self.n)
            .map(|j| (j == l && ty == Some(0x9202)) || (pre_connected[j] && !s.w.connections[j].connected && ty != Some(0x9210)))
            .collect();
        self.wire_check(s, &out, false, &reset)
    }

    /// C10: window evolution equals the reference rules, event by event.
    fn c10_windows(&self, s: &mut SS, arrival: usize, bytes: &[u8], pre_w: &[i32], pre_log: &[Vec<i32>], pre_nak: &[i32]) -> Result<(), Fail> {
        let n = self.n;
        let mut w: Vec<i32> = pre_w.to_vec();
        let mut logs: Vec<Vec<i32>> = pre_log.to_vec();
        let ty = pkt_type(bytes);
        let connected: Vec<bool> = s.w.connections.iter().map(|c| c.connected && c.last_received.is_some()).collect();
        match ty {
            Some(0x9100) if bytes.len() >= 8 => {
                for k in 1..bytes.len() / 4 {
                    let q = i32::from_be_bytes(bytes[k * 4..k * 4 + 4].try_into().unwrap());
                    let holder = if logs[arrival].contains(&q) {
                        Some(arrival)
                    } else {
                        (0..n).find(|j| *j != arrival && logs[*j].contains(&q))
                    };
                    if let Some(h) = holder {
                        let p = logs[h].iter().position(|x| *x == q).unwrap();
                        logs[h].swap_remove(p);
                        let inflight = logs[h].len() as i64;
                        if inflight * 1000 > w[h] as i64 {
                            w[h] = (w[h] + 29).min(60000);
                        }
                    }
                    for j in 0..n {
                        if connected[j] {
                            w[j] = (w[j] + 1).min(60000);
                        }
                    }
                }
            }
            Some(0x8003) if bytes.len() >= 8 => {
                // charged NAKs: -100 each, floor 1000 (which link is charged is C05's subject: read it off the counters)
                for j in 0..n {
                    let charged = s.w.connections[j].congestion.nak_count - pre_nak[j];
                    for _ in 0..charged.max(0) {
                        w[j] = (w[j] - 100).max(1000);
                    }
                }
            }
            Some(0x9202) | Some(0x9210) => return Ok(()),
            _ => {}
        }
        for j in 0..n {
            if s.w.connections[j].window != w[j] {
                return Err(Fail::new(
                    "classic-window-differs",
                    format!("after a {:?} datagram on link {arrival}: link {j} window {} -> {}, reference rules give {}", ty.map(|t| format!("{t:#06x}")), pre_w[j], s.w.connections[j].window, w[j]),
                ));
            }
        }
        Ok(())
    }

    fn oldest(&self, s: &SS, l: usize) -> Option<i32> {
        s.w.connections[l].packet_log.keys().copied().min()
    }

    pub fn apply(&self, env: &mut Env, s: &mut SS, ev: SEv) -> Result<(), Fail> {
        let n = self.n;
        match ev {
            SEv::Cdata | SEv::Cmtu => {
                s.w.advance(1);
                let seq = s.next_seq;
                s.next_seq += 1;
                let len = if ev == SEv::Cmtu { 1500 } else { 188 };
                let p = srt_data(seq, false, s.ledger.len() as u32, len);
                self.client(env, s, p, Some(seq))
            }
            SEv::Crtx => {
                s.w.advance(1);
                // retransmission of an earlier sequence number, R flag set
                let seq = s.next_seq.saturating_sub(5).max(1);
                s.last_rtx = Some(seq);
                let p = srt_data(seq, true, s.ledger.len() as u32, 188);
                self.client(env, s, p, Some(seq))
            }
            SEv::Cctl => {
                s.w.advance(1);
                let mut p = vec![0u8; 44];
                p[0] = 0x80;
                p[1] = 0x06; // SRT control (ACKACK)
                p[8..12].copy_from_slice(&(s.ledger.len() as u32).to_be_bytes());
                p[12..16].copy_from_slice(&0xfeed_beefu32.to_be_bytes());
                self.client(env, s, p, None)
            }
            SEv::Ctiny => {
                s.w.advance(1);
                let p = vec![(s.ledger.len() as u8) | 0x80];
                self.client(env, s, p, None)
            }
            SEv::Cburst(k) => {
                for _ in 0..k {
                    s.w.advance(0);
                    let seq = s.next_seq;
                    s.next_seq += 1;
                    let p = srt_data(seq, false, s.ledger.len() as u32, 188);
                    self.client(env, s, p, Some(seq))?;
                }
                Ok(())
            }
            SEv::Crit(ms) => {
                s.w.open_critical(ms);
                Ok(())
            }
            SEv::Tflush => {
                // the flush timer is periodic: the next 15 ms boundary (1..=15 ms away)
                let t = s.w.now - T0;
                s.w.now = T0 + (t / 15 + 1) * 15;
                let pre_connected: Vec<bool> = s.w.connections.iter().map(|c| c.connected).collect();
                let out = s.w.arm_flush(env);
                let reset: Vec<bool> = (0..n).map(|l| pre_connected[l] && !s.w.connections[l].connected).collect();
                self.wire_check(s, &out, true, &reset)
            }
            SEv::Thk(dt) => {
                s.w.advance(dt);
                let pre_w: Vec<i32> = s.w.connections.iter().map(|c| c.window).collect();
                let pre_connected: Vec<bool> = s.w.connections.iter().map(|c| c.connected).collect();
                let pre_attempt: Vec<u64> = s.w.connections.iter().map(|c| c.reconnection.last_reconnect_attempt_ms).collect();
                let classic = s.w.config.mode().is_classic();
                let out = s.w.arm_housekeeping(env);
                for (l, b) in &out.wire {
                    if *l < n && pkt_type(b) == Some(0x9000) {
                        s.last_keepalive[*l] = Some(b.clone());
                    }
                }
                if (self.or.c10 || self.or.c01) && classic {
                    for l in 0..n {
                        let c = &s.w.connections[l];
                        // a link torn down by this pass goes back to the default window; nothing else may move it
                        let torn_down = pre_connected[l] && !c.connected;
                        if c.window != pre_w[l] && !torn_down && !(c.window == 20000 && !c.connected) {
                            return Err(Fail::new(
                                "classic-housekeeping-moved-window",
                                format!("classic mode: housekeeping moved link {l}'s window {} -> {}", pre_w[l], c.window),
                            ));
                        }
                    }
                }
                // a time-out teardown / reconnect attempt clears that link's queue
                let reset: Vec<bool> = (0..n)
                    .map(|l| {
                        (pre_connected[l] && !s.w.connections[l].connected)
                            || s.w.connections[l].reconnection.last_reconnect_attempt_ms != pre_attempt[l]
                    })
                    .collect();
                self.wire_check(s, &out, false, &reset)
            }
            SEv::Adv(dt) => {
                s.w.advance(dt);
                Ok(())
            }
            SEv::UsrtAck(l) => {
                s.w.advance(1);
                let mut p = vec![0u8; 44];
                p[0] = 0x80;
                p[1] = 0x02;
                p[16..20].copy_from_slice(&(s.next_seq.saturating_sub(1)).to_be_bytes());
                self.uplink(env, s, l, &p)
            }
            SEv::UlaOwn(l) => {
                s.w.advance(1);
                // the oldest number the link holds; if it holds none, the newest number sent so far
                // (acknowledged although nobody holds it any more, e.g. after the cumulative ACK)
                let q = self.oldest(s, l).map(|q| q as u32).unwrap_or(s.next_seq.saturating_sub(1));
                s.last_sla = Some(q);
                let mut p = vec![0x91u8, 0x00, 0, 0];
                p.extend_from_slice(&q.to_be_bytes());
                self.uplink(env, s, l, &p)
            }
            SEv::UlaOther(l) => {
                s.w.advance(1);
                // the oldest number another link holds; if there is none, a duplicate of the last SRTLA ACK
                let other = (0..n).filter(|j| *j != l).find_map(|j| self.oldest(s, j).map(|q| q as u32));
                let Some(q) = other.or(s.last_sla) else { return Ok(()) };
                s.last_sla = Some(q);
                let mut p = vec![0x91u8, 0x00, 0, 0];
                p.extend_from_slice(&q.to_be_bytes());
                self.uplink(env, s, l, &p)
            }
            SEv::UnakSingle(l) => {
                s.w.advance(1);
                let q = (0..n).filter_map(|j| self.oldest(s, j)).min();
                let Some(q) = q else { return Ok(()) };
                s.last_nak = Some(q as u32);
                let mut p = vec![0x80u8, 0x03, 0, 0];
                p.extend_from_slice(&(q as u32).to_be_bytes());
                self.uplink(env, s, l, &p)
            }
            SEv::UnakRtx(l) => {
                s.w.advance(1);
                let Some(q) = s.last_rtx else { return Ok(()) };
                s.last_nak = Some(q);
                let mut p = vec![0x80u8, 0x03, 0, 0];
                p.extend_from_slice(&q.to_be_bytes());
                self.uplink(env, s, l, &p)
            }
            SEv::UnakDup(l) => {
                s.w.advance(1);
                let Some(q) = s.last_nak else { return Ok(()) };
                let mut p = vec![0x80u8, 0x03, 0, 0];
                p.extend_from_slice(&q.to_be_bytes());
                self.uplink(env, s, l, &p)
            }
            SEv::Uka(l) => {
                s.w.advance(20);
                let Some(k) = s.last_keepalive[l].clone() else { return Ok(()) };
                self.uplink(env, s, l, &k)
            }
            SEv::Ureg3(l) => {
                s.w.advance(1);
                self.uplink(env, s, l, &[0x92, 0x02])
            }
            SEv::Uerr(l) => {
                s.w.advance(1);
                self.uplink(env, s, l, &[0x92, 0x10])
            }
            SEv::Fclose(l) => {
                s.w.rx_open[l] = false;
                s.mon[l].blind = true;
                Ok(())
            }
            SEv::Fopen(l) => {
                s.w.rx_open[l] = true;
                Ok(())
            }
            SEv::CfgMode => {
                let classic = s.w.config.mode().is_classic();
                let line = if classic {
                    r#"{"jsonrpc":"2.0","id":1,"method":"set_mode","params":{"mode":"enhanced"}}"#
                } else {
                    r#"{"jsonrpc":"2.0","id":1,"method":"set_mode","params":{"mode":"classic"}}"#
                };
                let _ = dispatch(&s.w.config, None, None, line);
                Ok(())
            }
            SEv::CfgStall => {
                let on = s.w.config.snapshot().stall_deselect;
                s.w.config.set_stall_deselect(!on);
                Ok(())
            }
            SEv::CfgQuality => {
                let on = s.w.config.snapshot().quality_enabled;
                s.w.config.set_quality_enabled(!on);
                Ok(())
            }
        }
    }
}

impl Model for StreamModel {
    type S = SS;
    type W = Env;
    fn worker(&self) -> Env {
        Env::new()
    }
    fn n_inits(&self) -> usize {
        self.inits.len()
    }
    fn init_name(&self, i: usize) -> String {
        self.inits[i].0.clone()
    }
    fn init(&self, env: &mut Env, i: usize) -> SS {
        self.build_init(env, self.inits[i].1)
    }
    fn n_events(&self) -> usize {
        self.events.len()
    }
    fn event_name(&self, e: usize) -> String {
        format!("{:?}", self.events[e])
    }
    fn enabled(&self, s: &SS, e: usize) -> bool {
        match self.events[e] {
            SEv::Fclose(l) => s.w.rx_open[l],
            SEv::Fopen(l) => !s.w.rx_open[l],
            SEv::UnakDup(_) => s.last_nak.is_some(),
            _ => true,
        }
    }
    fn step(&self, env: &mut Env, s: &mut SS, e: usize) -> Result<(), Fail> {
        self.apply(env, s, self.events[e])
    }
    fn fingerprint(&self, s: &SS) -> u64 {
        let v: Vec<(bool, u8, i32, i32, i32, bool, bool)> = s
            .w
            .connections
            .iter()
            .map(|c| {
                (
                    c.connected,
                    match c.phase {
                        LinkPhase::Registering => 0,
                        LinkPhase::Warming { .. } => 1,
                        LinkPhase::Live => 2,
                        LinkPhase::Degraded => 3,
                    },
                    c.window,
                    c.in_flight_packets,
                    qlen(c),
                    c.is_stall_gated(),
                    c.stall_latched(),
                )
            })
            .collect();
        engine::hash_of(&(v, s.w.last_selected_idx, s.w.config.mode().is_classic()))
    }
}

pub fn _unused(_: &dyn Fn(usize)) {}
