pub mod c02;
pub mod c06;
pub mod c15;
pub mod c16;
pub mod c17;

use crate::evidence::{Report, Tier};

pub type CheckFn = fn(Tier) -> Report;
pub type ReplayFn = fn(&serde_json::Value) -> Result<(), String>;

pub fn lookup(id: &str) -> Option<(CheckFn, ReplayFn)> {
    match id {
        "C02" => Some((c02::run, c02::replay)),
        "C06" => Some((c06::run, c06::replay)),
        "C15" => Some((c15::run, c15::replay)),
        "C16" => Some((c16::run, c16::replay)),
        "C17" => Some((c17::run, c17::replay)),
        _ => None,
    }
}
