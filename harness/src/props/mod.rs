pub mod c02;

use crate::evidence::{Report, Tier};

pub type CheckFn = fn(Tier) -> Report;

pub fn lookup(id: &str) -> Option<CheckFn> {
    match id {
        "C02" => Some(c02::run),
        _ => None,
    }
}

pub fn replay(id: &str, v: &serde_json::Value) -> Option<Result<(), String>> {
    match id {
        "C02" => Some(c02::replay(v)),
        _ => None,
    }
}
