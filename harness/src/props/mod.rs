pub mod c01;
pub mod c02;
pub mod c03;
pub mod c04;
pub mod c05;
pub mod c06;
pub mod c07;
pub mod c08;
pub mod c09;
pub mod c10;
pub mod c11;
pub mod c12;
pub mod c13;
pub mod c14;
pub mod c15;
pub mod c16;
pub mod c17;
pub mod c18;
pub mod c19;
pub mod c20;
pub mod stream;

use crate::evidence::{Report, Tier};

pub type CheckFn = fn(Tier) -> Report;
pub type ReplayFn = fn(&serde_json::Value) -> Result<(), String>;

pub fn lookup(id: &str) -> Option<(CheckFn, ReplayFn)> {
    match id {
        "C01" => Some((c01::run, c01::replay)),
        "C02" => Some((c02::run, c02::replay)),
        "C03" => Some((c03::run, c03::replay)),
        "C04" => Some((c04::run, c04::replay)),
        "C05" => Some((c05::run, c05::replay)),
        "C06" => Some((c06::run, c06::replay)),
        "C07" => Some((c07::run, c07::replay)),
        "C08" => Some((c08::run, c08::replay)),
        "C09" => Some((c09::run, c09::replay)),
        "C10" => Some((c10::run, c10::replay)),
        "C11" => Some((c11::run, c11::replay)),
        "C12" => Some((c12::run, c12::replay)),
        "C13" => Some((c13::run, c13::replay)),
        "C14" => Some((c14::run, c14::replay)),
        "C15" => Some((c15::run, c15::replay)),
        "C16" => Some((c16::run, c16::replay)),
        "C17" => Some((c17::run, c17::replay)),
        "C18" => Some((c18::run, c18::replay)),
        "C19" => Some((c19::run, c19::replay)),
        "C20" => Some((c20::run, c20::replay)),
        _ => None,
    }
}
