//! C19 — IP-list reload never strands the stream and never disturbs survivors.
//!
//! (a) exhaustive product of file contents through the real
//!     `analyze_ip_reload_text` / `analyze_ip_reload` against an independent
//!     line splitter; (b) world + history exploration of reload sequences
//!     through the real `apply_connection_changes` (directly, and through the
//!     housekeeping arm) while packets are in flight and numbers are tracked.

use std::collections::{BTreeMap, BTreeSet};
use std::net::IpAddr;
use std::str::FromStr;
use std::sync::Arc;
use std::time::Duration;

use serde_json::{Value, json};
use smallvec::SmallVec;
use srtla_core::connection::LinkPhase;
use srtla_send::net::{BatchUdpSocket, UplinkBinder};
use srtla_send::sender::apply_connection_changes;
use srtla_send::sender::verif_hooks::{IpReload, ReloadRefusal, analyze_ip_reload, analyze_ip_reload_text};

use super::c12::projection;
use super::stream::{InitKind, Oracles, StreamModel};
use crate::engine::{self, Fail, Limits, Model, Plan};
use crate::evidence::{Report, Tier, Violation};
use crate::util::srt_data;
use crate::world::*;

// ---------------------------------------------------------------------------
// (a) file contents

const LINES: [&str; 14] = [
    "",
    "  ",
    "\t",
    "127.0.0.1",
    " 127.0.0.2 ",
    "127.0.0.1",
    "::1",
    "garbage",
    "127.0.0.256",
    "127.0.0.1:80",
    "１２７.0.0.1",
    // padding that is white space, but not ASCII white space
    "\u{a0}127.0.0.3\u{a0}",
    "127.0.0.4\u{b}",
    "\u{3000}\u{2028}",
];

fn reference(text: &str) -> Result<(Vec<IpAddr>, Option<usize>), (bool, usize)> {
    // independent splitter: pieces between '\n', one trailing '\r' stripped, no line after a final '\n'
    let mut pieces: Vec<&str> = text.split('\n').collect();
    if text.ends_with('\n') || text.is_empty() {
        pieces.pop();
    }
    let mut ips = Vec::new();
    let mut first_bad = None;
    let mut content = false;
    for (i, p) in pieces.iter().enumerate() {
        let p = p.strip_suffix('\r').unwrap_or(p);
        let t = p.trim();
        if t.is_empty() {
            continue;
        }
        content = true;
        match IpAddr::from_str(t) {
            Ok(ip) => ips.push(ip),
            Err(_) => {
                if first_bad.is_none() {
                    first_bad = Some(i + 1);
                }
            }
        }
    }
    if ips.is_empty() {
        Err((content, first_bad.unwrap_or(1)))
    } else {
        Ok((ips, first_bad))
    }
}

fn judge_text(text: &str) -> Result<(), Fail> {
    let real = analyze_ip_reload_text(text);
    let want = reference(text);
    let ok = match (&real, &want) {
        (IpReload::Apply { ips, first_invalid_line }, Ok((w, fb))) => ips.as_slice() == w.as_slice() && first_invalid_line == fb,
        (IpReload::Refuse(ReloadRefusal::Empty), Err((false, _))) => true,
        (IpReload::Refuse(ReloadRefusal::NoValidIps { first_invalid_line }), Err((true, fb))) => first_invalid_line == fb,
        _ => false,
    };
    if ok {
        Ok(())
    } else {
        Err(Fail::new(
            "reload-parser-differs-from-statement",
            format!("file content {text:?}: real {real:?}, reference (parsable lines in order / refusal) {want:?}"),
        ))
    }
}

fn parser_product(rep: &mut Report, max_lines: usize) -> u64 {
    let mut n = 0u64;
    let mut idx = vec![0usize; 0];
    let endings = ["\n", "\r\n"];
    let mut distinct: BTreeSet<String> = BTreeSet::new();
    loop {
        // every file with lines `idx`, each line ending chosen uniformly, final ending present or not
        for e in endings {
            for final_nl in [true, false] {
                let mut text = String::new();
                for (k, i) in idx.iter().enumerate() {
                    text.push_str(LINES[*i]);
                    if k + 1 < idx.len() || final_nl {
                        text.push_str(e);
                    }
                }
                n += 1;
                match judge_text(&text) {
                    Ok(()) => {
                        if distinct.len() < 5000 {
                            distinct.insert(format!("{:?}", reference(&text)));
                        }
                    }
                    Err(f) => rep.add_violation(Violation { key: f.key.clone(), message: f.msg.clone(), replay: json!({"exploration": "parser", "text": text}) }),
                }
            }
        }
        // next index vector (length-lexicographic)
        let mut d = 0;
        loop {
            if d == idx.len() {
                idx.push(0);
                for x in idx.iter_mut() {
                    *x = 0;
                }
                break;
            }
            idx[d] += 1;
            if idx[d] < LINES.len() {
                break;
            }
            idx[d] = 0;
            d += 1;
        }
        if idx.len() > max_lines {
            break;
        }
    }
    // missing / unreadable file
    n += 1;
    match analyze_ip_reload("/verif/target/definitely-missing-ips-file") {
        IpReload::Refuse(ReloadRefusal::NotFound) => {}
        other => rep.add_violation(Violation {
            key: "missing-file-not-refused".into(),
            message: format!("missing file: {other:?}"),
            replay: json!({"exploration": "parser", "text": null}),
        }),
    }
    // a real file
    let path = crate::evidence::verif_root().join("target").join(".c19-ips.tmp");
    let _ = std::fs::write(&path, "127.0.0.3\n\ngarbage\n127.0.0.4\n");
    n += 1;
    match analyze_ip_reload(path.to_str().unwrap()) {
        IpReload::Apply { ips, first_invalid_line } if ips.len() == 2 && first_invalid_line == Some(3) => {}
        other => rep.add_violation(Violation {
            key: "reload-parser-differs-from-statement".into(),
            message: format!("real file: {other:?}"),
            replay: json!({"exploration": "parser", "text": "127.0.0.3\n\ngarbage\n127.0.0.4\n"}),
        }),
    }
    let _ = std::fs::remove_file(&path);
    rep.states += distinct.len() as u64;
    n
}

// ---------------------------------------------------------------------------
// (b) reload sequences

#[derive(Clone, Copy, Debug, PartialEq)]
enum Ev {
    Reload(usize),
    ReloadViaHousekeeping(usize),
    Cdata,
    Tflush,
    Nak,
    /// bringing up an uplink on address k fails from now on (socket bind fault) / works again
    BindFault(usize),
}

#[derive(Clone)]
pub struct St {
    w: World,
    next_seq: u32,
    /// numbers routed (unique copy) per conn_id
    carried: BTreeMap<u64, Vec<u32>>,
    last_seq: Option<u32>,
}

pub struct M {
    lists: Vec<Vec<usize>>,
    events: Vec<Ev>,
    name: String,
    latched: bool,
}

fn all_lists(quick: bool) -> Vec<Vec<usize>> {
    let mut v: Vec<Vec<usize>> = Vec::new();
    // all non-empty subsets of the 5-address universe (ascending order)
    for mask in 1u32..32 {
        v.push((0..5).filter(|i| mask >> i & 1 == 1).collect());
    }
    // orders and duplicates
    v.extend([vec![1, 0], vec![0, 0], vec![2, 0, 2], vec![4, 3, 2, 1, 0], vec![3, 3, 0], vec![1, 2, 1, 2]]);
    if quick {
        // keep: survivors only, remove one, remove all but one, replace all, add one, add two, orders/duplicates
        let keep = [vec![0, 1, 2], vec![0, 1], vec![2], vec![3, 4], vec![0, 1, 2, 3], vec![0, 2, 3, 4], vec![1, 0], vec![0, 0], vec![2, 0, 2], vec![3]];
        v.retain(|l| keep.contains(l));
    }
    v
}

impl M {
    fn new(quick: bool, latched: bool) -> Self {
        let lists = all_lists(quick);
        let mut events = vec![Ev::Cdata, Ev::Tflush, Ev::Nak];
        for i in 0..lists.len() {
            events.push(Ev::Reload(i));
        }
        for i in 0..lists.len().min(6) {
            events.push(Ev::ReloadViaHousekeeping(i));
        }
        events.push(Ev::BindFault(3));
        Self {
            name: format!("reload lists={} start={}", lists.len(), if latched { "S4 link 1 latched" } else { "S3 streaming" }),
            lists,
            events,
            latched,
        }
    }
}

fn label_of(w: &World, ip: IpAddr) -> String {
    format!("{}:{} via {}", w.receiver.ip(), w.receiver.port(), ip)
}

struct Snapshot {
    label: String,
    conn_id: u64,
    sock: Arc<BatchUdpSocket>,
    proj: String,
    private: String,
}

fn snapshot(w: &World) -> Vec<Snapshot> {
    w.connections
        .iter()
        .map(|c| Snapshot {
            label: c.label.clone(),
            conn_id: c.conn_id,
            sock: w.conn_io.get(&c.conn_id).map(|io| io.socket.clone()).expect("link without I/O entry"),
            proj: projection(c),
            private: format!("{:?}|{}|{}", c.verif_private(), c.is_stall_gated(), c.batch_sender.verif_last_flush_ms()),
        })
        .collect()
}

impl M {
    /// `reconnected`: labels of links that the housekeeping pass in front of the reload had cause to
    /// reconnect (silent for the configured timeout): their socket is legitimately new.
    fn check_apply(&self, s: &St, before: &[Snapshot], before_last: Option<usize>, list: &[usize], strict_state: bool, reconnected: &BTreeSet<String>) -> Result<(), Fail> {
        let w = &s.w;
        let wanted: Vec<String> = list.iter().map(|i| label_of(w, link_ip(*i))).collect();
        let wanted_set: BTreeSet<&String> = wanted.iter().collect();
        let ctx = |what: &str| {
            format!(
                "{what}: reload list {:?}; before {:?}; after {:?}",
                list.iter().map(|i| link_ip(*i).to_string()).collect::<Vec<_>>(),
                before.iter().map(|b| b.label.rsplit(' ').next().unwrap_or("").to_string()).collect::<Vec<_>>(),
                w.connections.iter().map(|c| c.local_ip.to_string()).collect::<Vec<_>>()
            )
        };
        // survivors
        for b in before {
            let after = w.connections.iter().find(|c| c.label == b.label);
            if wanted_set.contains(&b.label) {
                let Some(c) = after else {
                    return Err(Fail::new("surviving-link-removed", ctx(&format!("{} is still listed but was removed", b.label))));
                };
                if c.conn_id != b.conn_id {
                    return Err(Fail::new("surviving-link-lost-its-identity", ctx(&format!("{} changed conn_id", b.label))));
                }
                let Some(io) = w.conn_io.get(&c.conn_id) else {
                    return Err(Fail::new("surviving-link-lost-its-io-handle", ctx(&b.label)));
                };
                if !Arc::ptr_eq(&io.socket, &b.sock) && !reconnected.contains(&b.label) {
                    return Err(Fail::new("surviving-link-socket-replaced", ctx(&b.label)));
                }
                if strict_state {
                    let p = projection(c);
                    let pr = format!("{:?}|{}|{}", c.verif_private(), c.is_stall_gated(), c.batch_sender.verif_last_flush_ms());
                    if p != b.proj || pr != b.private {
                        return Err(Fail::new(
                            "surviving-link-state-changed",
                            ctx(&format!("{}:\n before {} {}\n after  {} {}", b.label, b.proj, b.private, p, pr)),
                        ));
                    }
                }
            } else {
                if after.is_some() {
                    return Err(Fail::new("unlisted-link-kept", ctx(&format!("{} is no longer listed but is still there", b.label))));
                }
                if w.conn_io.contains_key(&b.conn_id) {
                    return Err(Fail::new("removed-link-keeps-io-handle", ctx(&b.label)));
                }
                for q in s.carried.get(&b.conn_id).map(|v| v.as_slice()).unwrap_or(&[]) {
                    if let Some(id) = w.seq_tracker.get(*q, w.now) {
                        if id == b.conn_id {
                            return Err(Fail::new(
                                "removed-link-keeps-nak-attribution-records",
                                ctx(&format!("{}: sequence {q} is still attributed to the removed link", b.label)),
                            ));
                        }
                    }
                }
            }
        }
        // additions: each new address exactly once, fresh and registering, with an I/O entry
        let mut seen: BTreeMap<&str, usize> = BTreeMap::new();
        for c in w.connections.iter() {
            *seen.entry(c.label.as_str()).or_insert(0) += 1;
        }
        for (l, k) in &seen {
            if *k != 1 {
                return Err(Fail::new("address-present-more-than-once", ctx(&format!("{l} x{k}"))));
            }
        }
        for wl in &wanted_set {
            let Some(c) = w.connections.iter().find(|c| &&c.label == wl) else {
                // a new address whose bring-up fails (injected bind fault) cannot be added; every other one must be
                let failing = (0..MAX_LINKS).any(|k| w.bind_fail[k] && &&label_of(w, link_ip(k)) == wl);
                if failing && !before.iter().any(|b| &&b.label == wl) {
                    continue;
                }
                return Err(Fail::new("listed-address-not-added", ctx(wl)));
            };
            if !before.iter().any(|b| &&b.label == wl) {
                if c.connected || !matches!(c.phase, LinkPhase::Registering) || c.in_flight_packets != 0 || c.window != 20000 {
                    return Err(Fail::new("added-link-not-fresh", ctx(wl)));
                }
                if !w.conn_io.contains_key(&c.conn_id) {
                    return Err(Fail::new("added-link-without-io-handle", ctx(wl)));
                }
                if before.iter().any(|b| b.conn_id == c.conn_id) {
                    return Err(Fail::new("added-link-reuses-an-identity", ctx(wl)));
                }
            }
        }
        // listed addresses that can exist after this reload: all but the new ones whose bring-up fails
        let addable = wanted_set
            .iter()
            .filter(|wl| {
                let failing = (0..MAX_LINKS).any(|k| w.bind_fail[k] && &&label_of(w, link_ip(k)) == *wl);
                !(failing && !before.iter().any(|b| &&b.label == *wl))
            })
            .count();
        if w.connections.len() != addable || w.conn_io.len() != w.connections.len() {
            return Err(Fail::new("link-set-differs-from-list", ctx(&format!("{} links, {} I/O entries, {} addresses listed", w.connections.len(), w.conn_io.len(), wanted_set.len()))));
        }
        // routing memory
        let removed_any = before.iter().any(|b| !wanted_set.contains(&b.label));
        if strict_state {
            let want = if removed_any { None } else { before_last };
            if w.last_selected_idx != want {
                return Err(Fail::new(
                    "previous-routing-choice",
                    ctx(&format!("last_selected_idx {:?}, expected {want:?} (a link was removed: {removed_any})", w.last_selected_idx)),
                ));
            }
        } else if removed_any && w.last_selected_idx.is_some_and(|i| i >= w.connections.len()) {
            return Err(Fail::new("previous-routing-choice", ctx("stale index out of range")));
        }
        Ok(())
    }
}

impl Model for M {
    type S = St;
    type W = Env;
    fn worker(&self) -> Env {
        Env::new()
    }
    fn n_inits(&self) -> usize {
        1
    }
    fn init_name(&self, _i: usize) -> String {
        if self.latched { "S4(3,1): streaming on 3 links, link 1 stall-latched".into() } else { "S3(3): streaming on 3 links, packets in flight, numbers tracked".into() }
    }
    fn init(&self, env: &mut Env, _i: usize) -> St {
        let sm = StreamModel { name: "prefix".into(), n: 3, events: vec![], inits: vec![], or: Oracles::default() };
        let ss = sm.build_init(env, if self.latched { InitKind::Latched { link: 1 } } else { InitKind::Streaming { classic: false } });
        let mut w = ss.w;
        // labels must follow the "<host>:<port> via <ip>" convention reloads match on
        w.receiver = env.rx_addr[0];
        let labels: Vec<String> = w.connections.iter().map(|c| label_of(&w, c.local_ip)).collect();
        for (c, l) in w.connections.iter_mut().zip(labels) {
            c.label = l;
        }
        let mut s = St { w, next_seq: ss.next_seq + 100, carried: BTreeMap::new(), last_seq: None };
        // numbers tracked and in flight on every link
        for _ in 0..12 {
            self.step(env, &mut s, 0).expect("prefix");
        }
        self.step(env, &mut s, 1).expect("prefix");
        for _ in 0..5 {
            self.step(env, &mut s, 0).expect("prefix");
        }
        assert!(s.carried.len() >= 2, "scripted prefix: traffic did not spread over links");
        s
    }
    fn n_events(&self) -> usize {
        self.events.len()
    }
    fn event_name(&self, e: usize) -> String {
        match self.events[e] {
            Ev::Reload(i) => format!("Reload{:?}", self.lists[i].iter().map(|k| link_ip(*k).to_string()).collect::<Vec<_>>()),
            Ev::ReloadViaHousekeeping(i) => format!("ReloadViaHousekeeping{:?}", self.lists[i].iter().map(|k| link_ip(*k).to_string()).collect::<Vec<_>>()),
            other => format!("{other:?}"),
        }
    }
    fn step(&self, env: &mut Env, s: &mut St, e: usize) -> Result<(), Fail> {
        match self.events[e] {
            Ev::Cdata => {
                s.w.advance(1);
                let seq = s.next_seq;
                s.next_seq += 1;
                let pre: Vec<(u64, u64)> = s.w.connections.iter().map(|c| (c.conn_id, c.bitrate.bytes_sent_total)).collect();
                s.w.arm_client(env, &srt_data(seq, false, seq, 188));
                if let Some(i) = s.w.last_selected_idx {
                    if let Some(c) = s.w.connections.get(i) {
                        if pre.iter().any(|(id, b)| *id == c.conn_id && c.bitrate.bytes_sent_total > *b) {
                            s.carried.entry(c.conn_id).or_default().push(seq);
                            s.last_seq = Some(seq);
                        }
                    }
                }
                Ok(())
            }
            Ev::Tflush => {
                s.w.advance(15);
                s.w.arm_flush(env);
                Ok(())
            }
            Ev::Nak => {
                s.w.advance(1);
                if let Some(q) = s.last_seq {
                    let mut p = vec![0x80u8, 0x03, 0, 0];
                    p.extend_from_slice(&q.to_be_bytes());
                    s.w.arm_uplink(env, 0, &p);
                }
                Ok(())
            }
            Ev::BindFault(k) => {
                s.w.bind_fail[k] = !s.w.bind_fail[k];
                Ok(())
            }
            Ev::Reload(i) => {
                let list = &self.lists[i];
                let ips: SmallVec<IpAddr, 4> = list.iter().map(|k| link_ip(*k)).collect();
                let before = snapshot(&s.w);
                let before_last = s.w.last_selected_idx;
                {
                    let mut f = env.binder.fail.lock().unwrap();
                    f.clear();
                    for (k, b) in s.w.bind_fail.iter().enumerate() {
                        if *b {
                            f.push(link_ip(k));
                        }
                    }
                }
                let binder: Arc<dyn UplinkBinder> = env.binder.clone();
                let receiver = s.w.receiver;
                crate::util::set_now(s.w.now);
                {
                    let w = &mut s.w;
                    let tracker = Arc::make_mut(&mut w.seq_tracker);
                    env.rt.block_on(apply_connection_changes(
                        &mut w.connections,
                        &mut w.conn_io,
                        &ips,
                        &receiver.ip().to_string(),
                        receiver.port(),
                        &mut w.last_selected_idx,
                        tracker,
                        &binder,
                    ));
                }
                self.check_apply(s, &before, before_last, list, true, &BTreeSet::new())
            }
            Ev::ReloadViaHousekeeping(i) => {
                let list = &self.lists[i];
                s.w.pending_ips = Some(list.iter().map(|k| link_ip(*k)).collect());
                let before = snapshot(&s.w);
                let before_last = s.w.last_selected_idx;
                s.w.advance(1000);
                // the same arm first runs the ordinary housekeeping pass: a link that has been silent for the
                // configured timeout is reconnected there (new socket), which is not the reload's doing
                let timeout = s.w.config.snapshot().conn_timeout_ms;
                let reconnected: BTreeSet<String> = s.w.connections.iter().filter(|c| crate::sel::oracle_timed_out(c, s.w.now, timeout)).map(|c| c.label.clone()).collect();
                s.w.arm_housekeeping(env);
                if s.w.pending_ips.is_some() {
                    return Err(Fail::new("queued-reload-not-applied", "the housekeeping arm left the queued reload pending".into()));
                }
                self.check_apply(s, &before, before_last, list, false, &reconnected)
            }
        }
    }
    fn fingerprint(&self, s: &St) -> u64 {
        let v: Vec<(String, bool, i32)> = s.w.connections.iter().map(|c| (c.local_ip.to_string(), c.connected, c.in_flight_packets)).collect();
        engine::hash_of(&(v, s.w.last_selected_idx))
    }
}

fn models(tier: Tier) -> Vec<(String, Arc<M>, Vec<Plan>)> {
    let mut out = Vec::new();
    if tier.is_quick() {
        let m = Arc::new(M::new(true, false));
        out.push((m.name.clone(), m, vec![Plan::Full { depth: 4 }]));
        let m = Arc::new(M::new(true, true));
        out.push((m.name.clone(), m, vec![Plan::Full { depth: 3 }]));
        let m = Arc::new(M::new(false, false));
        out.push((m.name.clone(), m, vec![Plan::Full { depth: 2 }]));
    } else {
        let m = Arc::new(M::new(false, false));
        out.push((m.name.clone(), m, vec![Plan::Full { depth: 3 }]));
        let m = Arc::new(M::new(true, false));
        out.push((m.name.clone(), m, vec![Plan::Full { depth: 5 }]));
        let m = Arc::new(M::new(false, true));
        out.push((m.name.clone(), m, vec![Plan::Full { depth: 3 }]));
        let m = Arc::new(M::new(true, true));
        out.push((m.name.clone(), m, vec![Plan::Full { depth: 4 }]));
    }
    out
}

pub fn run(tier: Tier) -> Report {
    let mut rep = Report::new();
    crate::realx::run_for(&mut rep, "C19", tier.is_quick());
    if let Err(e) = glue_fingerprint() {
        rep.machinery_errors.push(e);
        return rep;
    }
    let n = parser_product(&mut rep, if tier.is_quick() { 4 } else { 5 });
    rep.transitions += n;
    rep.traces += n;
    rep.set("file_contents_judged", json!(n));
    rep.set("line_alphabet", json!(LINES));
    let lim = Limits {
        wall: Duration::from_secs(if tier.is_quick() { 40 } else { 2400 }),
        ..Default::default()
    };
    for (label, m, plans) in models(tier) {
        for plan in plans {
            let ex = engine::explore(&*m, &plan, &lim);
            engine::fold(&mut rep, &*m, &format!("{label} {}", plan.describe()), &plan, ex);
        }
        rep.set(&format!("reload_lists[{label}]"), json!(m.lists.iter().map(|l| l.iter().map(|k| link_ip(*k).to_string()).collect::<Vec<_>>()).collect::<Vec<_>>()));
    }
    rep.set("oracle", json!("(a) independent line splitter; parsable := IpAddr::from_str(trimmed) succeeds; refused iff no parsable line (Empty / NoValidIps with the first invalid line number / NotFound); otherwise the applied list is exactly the parsable lines in order with the first invalid line number. (b) after each apply: every link whose address is still listed keeps its conn_id, the same socket object (Arc::ptr_eq) and — for a direct apply — a bit-identical protocol state (full projection incl. guard-private state and queue); exactly the unlisted links are gone, with their I/O entry, and the tracker attributes none of the numbers they carried to them; each newly listed address appears exactly once as a fresh Registering link with an I/O entry and a new identity; links == I/O entries == distinct listed addresses; last_selected_idx is None iff a link was removed, else unchanged"));
    rep.assume("address universe 127.0.0.2 .. 127.0.0.6 (IPv4 loopback; an IPv6 source cannot connect to the IPv4 receiver; ::1 is covered by the parser product); the SIGHUP arm itself (analyze + queue) is mirrored: a refused analysis queues nothing, so nothing can change");
    rep.assume("the select! glue is mirrored (world.rs) and bound by a call-order + token digest fingerprint");
    rep
}

pub fn replay(v: &Value) -> Result<(), String> {
    if let Some(r) = crate::realx::replay_for("C19", v) {
        return r;
    }
    if v["exploration"] == "parser" {
        return match v["text"].as_str() {
            Some(t) => judge_text(t).map_err(|f| format!("[{}] {}", f.key, f.msg)),
            None => Ok(()),
        };
    }
    let mut ms = Vec::new();
    for tier in [Tier::Quick, Tier::Thorough] {
        for (l, m, _) in models(tier) {
            ms.push((l, m));
        }
    }
    engine::replay_json(&ms, v)
}
