//! C18 — runtime control protocol is total, well-formed and takes effect.
//!
//! (1) exhaustive product of a line grammar through the real `dispatch` and
//!     `dispatch_async` against a reference model over `serde_json::Value`;
//! (2) all command sequences to a depth against a six-field configuration model;
//! (3) schedule exploration (schedx, threads back-end) of concurrent setters
//!     and snapshot readers on the real `DynamicConfig`.

use std::collections::BTreeSet;
use std::panic::{AssertUnwindSafe, catch_unwind};
use std::sync::{Arc, Mutex};

use serde_json::{Value, json};
use srtla_core::mode::SchedulingMode;
use srtla_core::priority::CriticalWindow;
use srtla_send::config::DynamicConfig;
use srtla_send::control::{SubscriptionContext, dispatch, dispatch_async};
use srtla_send::stats::SharedStats;
use srtla_send::subscriptions::SubscriptionHub;

use crate::engine::{Fail, hash_of, par_map};
use crate::evidence::{Report, Tier, Violation};
use crate::sched::{block_on_simple, run_threads};
use crate::util::progress;

#[derive(Clone, Debug, PartialEq)]
struct Cfg {
    classic: bool,
    quality: bool,
    stall: bool,
    min_in_flight: i32,
    stale_ms: u64,
    timeout: u64,
}

impl Cfg {
    fn of(c: &DynamicConfig) -> Self {
        let s = c.snapshot();
        Cfg {
            classic: s.mode.is_classic(),
            quality: s.quality_enabled,
            stall: s.stall_deselect,
            min_in_flight: s.stall_min_in_flight,
            stale_ms: s.stall_ack_stale_ms,
            timeout: s.conn_timeout_ms,
        }
    }
    fn make(&self) -> DynamicConfig {
        DynamicConfig::from_cli(
            if self.classic { SchedulingMode::Classic } else { SchedulingMode::Enhanced },
            !self.quality,
            !self.stall,
            self.min_in_flight,
            self.stale_ms,
            self.timeout,
        )
    }
    fn status(&self) -> Value {
        json!({
            "mode": if self.classic { "classic" } else { "enhanced" },
            "quality_enabled": self.quality,
            "stall_deselect": self.stall,
            "stall_min_in_flight": self.min_in_flight,
            "stall_ack_stale_ms": self.stale_ms,
            "conn_timeout_ms": self.timeout,
            "critical_windows_received": 0,
            "critical_malformed_datagrams": 0,
        })
    }
}

/// What the generator knows about a line, independent of the code under test.
#[derive(Clone, Copy, Debug, PartialEq)]
enum Shape {
    Blank,
    NotJson,
    /// valid JSON, not a request object (wrong top-level type, missing / non-string jsonrpc or method, duplicate key)
    NotRequest,
    /// a JSON array whose elements positionally spell a request: not specified by the statement
    Unspecified,
    Request,
}

#[derive(Clone, Debug, PartialEq)]
enum Expect {
    NoResponse,
    Error(i64),
    /// error if a response is present, but none is also fine
    MaybeError(i64),
    Result(Option<Value>),
}

/// Reference model: expected response class, id to echo, and new configuration.
fn model(shape: Shape, v: Option<&Value>, cfg: &Cfg) -> (Expect, Value, Cfg) {
    let mut next = cfg.clone();
    match shape {
        Shape::Blank => return (Expect::NoResponse, Value::Null, next),
        Shape::NotJson | Shape::NotRequest => return (Expect::MaybeError(-32700), Value::Null, next),
        Shape::Unspecified => return (Expect::MaybeError(-32700), Value::Null, next),
        Shape::Request => {}
    }
    let v = v.unwrap();
    let id = v.get("id").cloned().unwrap_or(Value::Null);
    let has_id = !id.is_null();
    let params = v.get("params").cloned().unwrap_or(Value::Null);
    let respond = |e: Expect| if has_id { e } else { Expect::NoResponse };
    if v["jsonrpc"].as_str() != Some("2.0") {
        return (respond(Expect::Error(-32600)), id, next);
    }
    let method = v["method"].as_str().unwrap();
    let exp = match method {
        "set_mode" => match params.get("mode").and_then(Value::as_str) {
            Some("classic") => {
                next.classic = true;
                Expect::Result(Some(json!({"mode": "classic"})))
            }
            Some("enhanced") => {
                next.classic = false;
                Expect::Result(Some(json!({"mode": "enhanced"})))
            }
            _ => Expect::Error(-32602),
        },
        "set_quality" => match params.get("enabled").and_then(Value::as_bool) {
            Some(b) => {
                next.quality = b;
                Expect::Result(Some(json!({"enabled": b})))
            }
            None => Expect::Error(-32602),
        },
        "set_stall_deselect" => match params.get("enabled").and_then(Value::as_bool) {
            Some(b) => {
                next.stall = b;
                Expect::Result(Some(json!({"enabled": b})))
            }
            None => Expect::Error(-32602),
        },
        "set_conn_timeout" => match params.get("ms").and_then(Value::as_u64) {
            Some(ms) => {
                let a = ms.clamp(1000, 60000);
                next.timeout = a;
                Expect::Result(Some(json!({"ms": a})))
            }
            None => Expect::Error(-32602),
        },
        "get_status" => Expect::Result(Some(cfg.status())),
        "get_stats" => Expect::Result(None),
        _ => Expect::Error(-32601),
    };
    (respond(exp), id, next)
}

struct Line {
    text: String,
    shape: Shape,
}

fn grammar() -> Vec<Line> {
    let mut out: Vec<Line> = Vec::new();
    // (1) all strings of length <= 2 over the JSON-relevant alphabet
    let alpha: Vec<char> = "{}[]\":,0123456789-+.eEtrufalsn \t\\/xX'_#%\u{e9}".chars().collect();
    let classify = |s: &str| -> Shape {
        if s.trim().is_empty() {
            return Shape::Blank;
        }
        match serde_json::from_str::<Value>(s.trim()) {
            Err(_) => Shape::NotJson,
            Ok(Value::Array(a)) if !a.is_empty() && a[0].is_string() => Shape::Unspecified,
            Ok(_) => Shape::NotRequest,
        }
    };
    out.push(Line { text: String::new(), shape: Shape::Blank });
    for a in &alpha {
        let s: String = [*a].iter().collect();
        out.push(Line { shape: classify(&s), text: s });
        for b in &alpha {
            let s: String = [*a, *b].iter().collect();
            out.push(Line { shape: classify(&s), text: s });
        }
    }
    // (2) grammar product
    let jsonrpc: [Option<&str>; 5] = [None, Some("\"2.0\""), Some("\"1.0\""), Some("2.0"), Some("null")];
    let ids: [Option<&str>; 10] = [None, Some("null"), Some("0"), Some("-1"), Some("1e400"), Some("\"abc\""), Some("\"\""), Some("[]"), Some("{}"), Some("true")];
    let methods: [Option<&str>; 13] = [
        None,
        Some("\"set_mode\""),
        Some("\"set_quality\""),
        Some("\"set_stall_deselect\""),
        Some("\"set_conn_timeout\""),
        Some("\"get_status\""),
        Some("\"get_stats\""),
        Some("\"subscribe\""),
        Some("\"unsubscribe\""),
        Some("\"get_subscription_count\""),
        Some("\"\""),
        Some("\"SET_MODE\""),
        Some("7"),
    ];
    let params: [Option<&str>; 30] = [
        None,
        Some("null"),
        Some("{}"),
        Some("[]"),
        Some("\"x\""),
        Some("{\"mode\":\"classic\"}"),
        Some("{\"mode\":\"enhanced\"}"),
        Some("{\"mode\":\"Classic\"}"),
        Some("{\"mode\":1}"),
        Some("{\"mode\":null}"),
        Some("{\"enabled\":true}"),
        Some("{\"enabled\":false}"),
        Some("{\"enabled\":\"true\"}"),
        Some("{\"enabled\":1}"),
        Some("{\"enabled\":null,\"mode\":\"classic\"}"),
        Some("{\"ms\":0}"),
        Some("{\"ms\":999}"),
        Some("{\"ms\":1000}"),
        Some("{\"ms\":60000}"),
        Some("{\"ms\":60001}"),
        Some("{\"ms\":9007199254740992}"),
        Some("{\"ms\":18446744073709551615}"),
        Some("{\"ms\":18446744073709551616}"),
        Some("{\"ms\":-1}"),
        Some("{\"ms\":1.5}"),
        Some("{\"ms\":1e3}"),
        Some("{\"ms\":\"5000\"}"),
        Some("{\"ms\":15000,\"extra\":[1,2,{\"a\":null}]}"),
        Some("{\"topic\":\"stats\"}"),
        Some("[{\"mode\":\"classic\"}]"),
    ];
    for j in jsonrpc {
        for i in ids {
            for m in methods {
                for p in params {
                    let mut fields: Vec<String> = Vec::new();
                    if let Some(j) = j {
                        fields.push(format!("\"jsonrpc\":{j}"));
                    }
                    if let Some(m) = m {
                        fields.push(format!("\"method\":{m}"));
                    }
                    if let Some(p) = p {
                        fields.push(format!("\"params\":{p}"));
                    }
                    if let Some(i) = i {
                        fields.push(format!("\"id\":{i}"));
                    }
                    let obj = format!("{{{}}}", fields.join(","));
                    let request_shaped = matches!(j, Some(x) if x.starts_with('"')) && matches!(m, Some(x) if x.starts_with('"'));
                    let json_ok = i != Some("1e400") || true;
                    let _ = json_ok;
                    // 1e400 is not representable: serde_json rejects the number => not JSON for our purposes
                    let base_shape = if i == Some("1e400") {
                        Shape::NotJson
                    } else if request_shaped {
                        Shape::Request
                    } else {
                        Shape::NotRequest
                    };
                    // envelopes
                    out.push(Line { text: obj.clone(), shape: base_shape });
                    if p == Some("{}") || p.is_none() || p == Some("{\"mode\":\"classic\"}") || p == Some("{\"ms\":60001}") {
                        out.push(Line { text: format!("  \t{obj} \r"), shape: base_shape });
                        out.push(Line { text: format!("[{obj}]"), shape: if i == Some("1e400") { Shape::NotJson } else { Shape::NotRequest } });
                        out.push(Line { text: format!("{obj} trailing"), shape: Shape::NotJson });
                        // duplicate key
                        if let Some(m) = m {
                            let mut f2 = fields.clone();
                            f2.push(format!("\"method\":{m}"));
                            out.push(Line { text: format!("{{{}}}", f2.join(",")), shape: if i == Some("1e400") { Shape::NotJson } else { Shape::NotRequest } });
                        }
                    }
                }
            }
        }
    }
    // positional arrays (struct-from-sequence): not specified by the statement
    for t in ["[\"2.0\",\"get_status\"]", "[\"2.0\",\"set_mode\",{\"mode\":\"classic\"}]", "[\"2.0\",\"set_mode\",{\"mode\":\"classic\"},5]", "[\"2.0\"]", "[\"1.0\",\"get_status\",null,1]"] {
        out.push(Line { text: t.to_string(), shape: Shape::Unspecified });
    }
    // deep nesting and long strings
    out.push(Line { text: format!("{}1{}", "[".repeat(200), "]".repeat(200)), shape: Shape::NotJson });
    out.push(Line { text: format!("{}1{}", "[".repeat(100), "]".repeat(100)), shape: Shape::NotRequest });
    out.push(Line { text: format!("{{\"jsonrpc\":\"2.0\",\"id\":1,\"method\":\"{}\"}}", "m".repeat(5000)), shape: Shape::Request });
    out.push(Line { text: "{\"jsonrpc\":\"2.0\",\"id\":1,\"method\":\"set_mode\",\"params\":{\"mode\":\"cl\\u0061ssic\"}}".into(), shape: Shape::Request });
    // (3) every client-controlled string position x every byte length 0..=160 x a 1/2/3/4-byte
    // character at the end of the prefix (so every byte offset is or is not a character boundary)
    for pre in 0..=160usize {
        for ch in ["", "\u{e9}", "\u{20ac}", "\u{1f600}"] {
            for suf in ["", "z"] {
                let v = format!("{}{ch}{suf}", "a".repeat(pre));
                for t in [
                    format!("{{\"jsonrpc\":\"2.0\",\"id\":1,\"method\":\"{v}\"}}"),
                    format!("{{\"jsonrpc\":\"2.0\",\"id\":1,\"method\":\"set_mode\",\"params\":{{\"mode\":\"{v}\"}}}}"),
                    format!("{{\"jsonrpc\":\"2.0\",\"id\":\"{v}\",\"method\":\"get_status\"}}"),
                    format!("{{\"jsonrpc\":\"2.0\",\"id\":\"{v}\",\"method\":\"set_conn_timeout\",\"params\":{{\"ms\":\"{v}\"}}}}"),
                    format!("{{\"jsonrpc\":\"{v}\",\"id\":1,\"method\":\"get_status\"}}"),
                    format!("{{\"jsonrpc\":\"2.0\",\"id\":1,\"method\":\"set_quality\",\"params\":{{\"{v}\":true}}}}"),
                ] {
                    out.push(Line { text: t, shape: Shape::Request });
                }
            }
        }
    }
    out
}

struct Ctx {
    stats: SharedStats,
    crit: CriticalWindow,
}

/// Run one line through all three entry-point variants on fresh copies of the
/// same configuration and judge them.
fn judge_line(cx: &Ctx, cfg: &Cfg, line: &Line) -> Result<(Cfg, u64), Fail> {
    let show = || {
        let t: String = line.text.chars().take(160).collect();
        format!("line {t:?} (start config {cfg:?})")
    };
    let run = |which: u8| -> Result<(Option<String>, Cfg), Fail> {
        let c = cfg.make();
        let r = catch_unwind(AssertUnwindSafe(|| match which {
            0 => dispatch(&c, Some(&cx.stats), Some(&cx.crit), &line.text).map(|r| r.to_json()),
            1 => block_on_simple(dispatch_async(&c, Some(&cx.stats), Some(&cx.crit), None, &line.text)).map(|r| r.to_json()),
            _ => {
                let hub = SubscriptionHub::new();
                let (tx, _rx) = tokio::sync::mpsc::channel::<String>(4);
                let mut owned = Vec::new();
                let mut sc = SubscriptionContext { hub: &hub, push_tx: tx, owned_ids: &mut owned };
                block_on_simple(dispatch_async(&c, Some(&cx.stats), Some(&cx.crit), Some(&mut sc), &line.text)).map(|r| r.to_json())
            }
        }));
        match r {
            Ok(resp) => Ok((resp, Cfg::of(&c))),
            Err(_) => Err(Fail::new("dispatcher-panicked", format!("entry point {which} panicked on {}", show()))),
        }
    };
    let (r0, c0) = run(0)?;
    let (r1, c1) = run(1)?;
    let (r2, c2) = run(2)?;
    let parsed: Option<Value> = serde_json::from_str::<Value>(line.text.trim()).ok();
    let (exp, id, next) = model(line.shape, parsed.as_ref(), cfg);
    // ---- response well-formedness against the model (sync entry point)
    let check_resp = |resp: &Option<String>, exp: &Expect, who: &str| -> Result<(), Fail> {
        let rv: Option<Value> = match resp {
            None => None,
            Some(t) => match serde_json::from_str::<Value>(t) {
                Ok(v) => Some(v),
                Err(e) => return Err(Fail::new("response-not-json", format!("{who}: response {t:?} does not parse ({e}) for {}", show()))),
            },
        };
        let fail = |k: &str, m: String| Err(Fail::new(k, format!("{who}: {m}; response {resp:?} for {}", show())));
        match (exp, &rv) {
            (Expect::NoResponse, None) => Ok(()),
            (Expect::NoResponse, Some(_)) => fail("response-to-a-notification-or-blank-line", "no response expected".into()),
            (Expect::MaybeError(_), None) => Ok(()),
            (_, None) => fail("request-with-id-got-no-response", "a response was expected".into()),
            (_, Some(v)) => {
                if v["jsonrpc"] != "2.0" {
                    return fail("response-malformed", "jsonrpc is not \"2.0\"".into());
                }
                let has_r = v.get("result").is_some();
                let has_e = v.get("error").is_some();
                if has_r == has_e {
                    return fail("response-malformed", "not exactly one of result / error".into());
                }
                if v.get("id") != Some(&id) {
                    return fail("response-id-not-echoed", format!("id {:?}, expected {id:?}", v.get("id")));
                }
                match exp {
                    Expect::Error(code) | Expect::MaybeError(code) => {
                        if v["error"]["code"].as_i64() != Some(*code) || !v["error"]["message"].is_string() {
                            return fail("wrong-error-code", format!("expected error {code}"));
                        }
                        Ok(())
                    }
                    Expect::Result(want) => {
                        if !has_r {
                            return fail("error-instead-of-result", "a result was expected".into());
                        }
                        if let Some(w) = want {
                            if &v["result"] != w {
                                return fail("wrong-result", format!("expected result {w}"));
                            }
                        }
                        Ok(())
                    }
                    Expect::NoResponse => unreachable!(),
                }
            }
        }
    };
    if line.shape == Shape::Unspecified {
        // only totality and response shape
        if let Some(t) = &r0 {
            let v: Value = serde_json::from_str(t).map_err(|e| Fail::new("response-not-json", format!("{t:?}: {e}; {}", show())))?;
            if v["jsonrpc"] != "2.0" || v.get("result").is_some() == v.get("error").is_some() || v.get("id").is_none() {
                return Err(Fail::new("response-malformed", format!("{t}; {}", show())));
            }
        }
    } else {
        check_resp(&r0, &exp, "dispatch")?;
    }
    // ---- takes effect (and nothing else changes)
    if line.shape != Shape::Unspecified && c0 != next {
        return Err(Fail::new("configuration-effect-differs", format!("after dispatch: {c0:?}, model {next:?}; {}", show())));
    }
    if !(1000..=60000).contains(&c0.timeout) {
        return Err(Fail::new("timeout-outside-clamp", format!("conn_timeout_ms {} after {}", c0.timeout, show())));
    }
    // ---- entry points agree, except for the subscription methods
    let method = parsed.as_ref().and_then(|v| v.get("method")).and_then(Value::as_str).unwrap_or("");
    let sub_method = matches!(method, "subscribe" | "unsubscribe" | "get_subscription_count");
    if r1 != r0 || c1 != c0 {
        return Err(Fail::new("entry-points-disagree", format!("dispatch -> {r0:?} / {c0:?}; dispatch_async (no subscription context) -> {r1:?} / {c1:?}; {}", show())));
    }
    if !sub_method && (r2 != r0 || c2 != c0) {
        return Err(Fail::new("entry-points-disagree", format!("dispatch -> {r0:?} / {c0:?}; dispatch_async (socket) -> {r2:?} / {c2:?}; {}", show())));
    }
    if sub_method && line.shape == Shape::Request {
        // still exactly one well-formed response iff an id is present
        let has_id = parsed.as_ref().and_then(|v| v.get("id")).is_some_and(|i| !i.is_null());
        let version_ok = parsed.as_ref().and_then(|v| v["jsonrpc"].as_str().map(|s| s == "2.0")).unwrap_or(false);
        if r2.is_some() != has_id {
            return Err(Fail::new("subscription-method-response-count", format!("socket entry point -> {r2:?}; {}", show())));
        }
        if let Some(t) = &r2 {
            let v: Value = serde_json::from_str(t).map_err(|e| Fail::new("response-not-json", format!("{t:?}: {e}")))?;
            if v["jsonrpc"] != "2.0" || v.get("id") != Some(&id) || (v.get("result").is_some() == v.get("error").is_some()) {
                return Err(Fail::new("response-malformed", format!("socket entry point -> {t}; {}", show())));
            }
            if !version_ok && v["error"]["code"].as_i64() != Some(-32600) {
                return Err(Fail::new("wrong-error-code", format!("socket entry point -> {t}; {}", show())));
            }
        }
        if c2 != *cfg {
            return Err(Fail::new("configuration-effect-differs", format!("a subscription method changed the configuration; {}", show())));
        }
    }
    let outcome = hash_of(&(format!("{exp:?}"), r0.as_ref().map(|t| t.len().min(40)), c0 != *cfg));
    Ok((c0, outcome))
}

const COMMANDS: [&str; 14] = [
    r#"{"jsonrpc":"2.0","id":1,"method":"set_mode","params":{"mode":"classic"}}"#,
    r#"{"jsonrpc":"2.0","method":"set_mode","params":{"mode":"enhanced"}}"#,
    r#"{"jsonrpc":"2.0","id":"q","method":"set_quality","params":{"enabled":false}}"#,
    r#"{"jsonrpc":"2.0","method":"set_quality","params":{"enabled":true}}"#,
    r#"{"jsonrpc":"2.0","id":3,"method":"set_stall_deselect","params":{"enabled":false}}"#,
    r#"{"jsonrpc":"2.0","id":null,"method":"set_stall_deselect","params":{"enabled":true}}"#,
    r#"{"jsonrpc":"2.0","id":4,"method":"set_conn_timeout","params":{"ms":15000}}"#,
    r#"{"jsonrpc":"2.0","method":"set_conn_timeout","params":{"ms":0}}"#,
    r#"{"jsonrpc":"2.0","id":5,"method":"set_conn_timeout","params":{"ms":18446744073709551615}}"#,
    r#"{"jsonrpc":"1.0","method":"set_mode","params":{"mode":"classic"}}"#,
    r#"{"jsonrpc":"2.0","id":6,"method":"set_mode","params":{"mode":"turbo"}}"#,
    r#"{"jsonrpc":"2.0","id":7,"method":"get_status"}"#,
    r#"not json"#,
    r#"{"jsonrpc":"2.0","id":8,"method":"subscribe","params":{"topic":"stats"}}"#,
];

// ---------------------------------------------------------------------------------------------
// The real connection loop of the control socket (control_socket::spawn -> run -> handle):
// every sequence of <= depth lines from a small alphabet is written to a real Unix socket; the
// responses must be exactly what the synchronous dispatcher answers to the same lines, in order,
// and the configuration must end up the same.

fn loop_alphabet() -> Vec<(&'static str, Vec<String>)> {
    // (name, chunks written to the socket): a symbol is one or more lines, possibly split oddly
    let l = |s: &str| s.to_string();
    vec![
        ("request get_status", vec![l("{\"jsonrpc\":\"2.0\",\"id\":1,\"method\":\"get_status\"}\n")]),
        ("notification set_mode classic", vec![l("{\"jsonrpc\":\"2.0\",\"method\":\"set_mode\",\"params\":{\"mode\":\"classic\"}}\n")]),
        ("request set_conn_timeout 60001", vec![l("{\"jsonrpc\":\"2.0\",\"id\":\"t\",\"method\":\"set_conn_timeout\",\"params\":{\"ms\":60001}}\n")]),
        ("notification set_quality false", vec![l("{\"jsonrpc\":\"2.0\",\"method\":\"set_quality\",\"params\":{\"enabled\":false}}\n")]),
        ("blank line", vec![l("   \t \r\n")]),
        ("malformed", vec![l("{\"jsonrpc\":\"2.0\",\"id\":7,\n")]),
        ("notification of an unknown method", vec![l("{\"jsonrpc\":\"2.0\",\"method\":\"nope\"}\n")]),
        ("request set_mode enhanced, CRLF, written in two chunks", vec![l("{\"jsonrpc\":\"2.0\",\"id\":2,\"method\":\"set_"), l("mode\",\"params\":{\"mode\":\"enhanced\"}}\r\n")]),
        ("two requests in one write", vec![l("{\"jsonrpc\":\"2.0\",\"id\":3,\"method\":\"get_status\"}\n{\"jsonrpc\":\"2.0\",\"id\":4,\"method\":\"set_stall_deselect\",\"params\":{\"enabled\":false}}\n")]),
        ("request with wrong version", vec![l("{\"jsonrpc\":\"1.0\",\"id\":5,\"method\":\"get_status\"}\n")]),
        ("notification with bad params", vec![l("{\"jsonrpc\":\"2.0\",\"method\":\"set_conn_timeout\",\"params\":{\"ms\":\"x\"}}\n")]),
        ("request get_stats", vec![l("{\"jsonrpc\":\"2.0\",\"id\":6,\"method\":\"get_stats\"}\n")]),
    ]
}

const END_LINE: &str = "{\"jsonrpc\":\"2.0\",\"id\":\"END\",\"method\":\"get_status\"}";

/// One sequence through the real socket loop. Returns (responses, final config).
fn socket_run(rt: &tokio::runtime::Runtime, sock_path: &str, cfg: &Cfg, alpha: &[(&'static str, Vec<String>)], seq: &[usize], unterminated_end: bool) -> Result<(Vec<String>, Cfg), String> {
    use tokio::io::{AsyncBufReadExt, AsyncWriteExt, BufReader};
    let c = cfg.make();
    let c2 = c.clone();
    rt.block_on(async move {
        let _ = std::fs::remove_file(sock_path);
        let server = srtla_send::control_socket::spawn(sock_path.to_string(), c2, SharedStats::new(), CriticalWindow::new(), SubscriptionHub::new());
        // wait for the listener
        let mut stream = None;
        for _ in 0..2000 {
            match tokio::net::UnixStream::connect(sock_path).await {
                Ok(s) => {
                    stream = Some(s);
                    break;
                }
                Err(_) => tokio::time::sleep(std::time::Duration::from_millis(1)).await,
            }
        }
        let Some(stream) = stream else {
            server.abort();
            return Err("control socket did not come up".to_string());
        };
        let (rd, mut wr) = stream.into_split();
        let mut rd = BufReader::new(rd);
        for i in seq {
            for chunk in &alpha[*i].1 {
                wr.write_all(chunk.as_bytes()).await.map_err(|e| e.to_string())?;
                wr.flush().await.ok();
                // let the server see the chunk on its own (a split line really arrives in two reads)
                tokio::task::yield_now().await;
                tokio::time::sleep(std::time::Duration::from_micros(200)).await;
            }
        }
        wr.write_all(END_LINE.as_bytes()).await.map_err(|e| e.to_string())?;
        if unterminated_end {
            // the last request has no newline: the client half-closes instead (printf '{...}' | socat)
            wr.shutdown().await.map_err(|e| e.to_string())?;
        } else {
            wr.write_all(b"\n").await.map_err(|e| e.to_string())?;
        }
        let mut got = Vec::new();
        let mut line = String::new();
        let mut ended = false;
        // every request is answered before END's answer; the connection stays open, so read until END (or 3 s)
        while let Ok(Ok(n)) = tokio::time::timeout(std::time::Duration::from_secs(3), rd.read_line(&mut line)).await {
            if n == 0 {
                break;
            }
            let t = line.trim().to_string();
            line.clear();
            let is_end = serde_json::from_str::<Value>(&t).ok().is_some_and(|v| v["id"] == "END");
            got.push(t);
            if is_end {
                ended = true;
                break;
            }
        }
        server.abort();
        let _ = std::fs::remove_file(sock_path);
        if !ended {
            got.push("<no answer to the closing request within 3 s>".into());
        }
        Ok((got, Cfg::of(&c)))
    })
}

/// The same lines through the synchronous dispatcher (the specification of the loop: one line, one dispatch).
fn reference_run(cx: &Ctx, cfg: &Cfg, alpha: &[(&'static str, Vec<String>)], seq: &[usize]) -> (Vec<String>, Cfg) {
    let c = cfg.make();
    let mut text = String::new();
    for i in seq {
        for chunk in &alpha[*i].1 {
            text.push_str(chunk);
        }
    }
    text.push_str(END_LINE);
    text.push('\n');
    let mut out = Vec::new();
    for line in text.split('\n') {
        let t = line.trim();
        if t.is_empty() {
            continue;
        }
        if let Some(r) = dispatch(&c, Some(&cx.stats), Some(&cx.crit), t) {
            out.push(r.to_json());
        }
    }
    (out, Cfg::of(&c))
}

fn canon_json(s: &str) -> String {
    serde_json::from_str::<Value>(s).map(|v| v.to_string()).unwrap_or_else(|_| s.to_string())
}

fn socket_loop_one(rt: &tokio::runtime::Runtime, path: &str, cx: &Ctx, cfg: &Cfg, alpha: &[(&'static str, Vec<String>)], seq: &[usize]) -> Result<(), Fail> {
    socket_loop_variant(rt, path, cx, cfg, alpha, seq, false)?;
    if seq.len() <= 2 {
        socket_loop_variant(rt, path, cx, cfg, alpha, seq, true)?;
    }
    Ok(())
}

fn socket_loop_variant(rt: &tokio::runtime::Runtime, path: &str, cx: &Ctx, cfg: &Cfg, alpha: &[(&'static str, Vec<String>)], seq: &[usize], unterminated_end: bool) -> Result<(), Fail> {
    let (got, end_cfg) = socket_run(rt, path, cfg, alpha, seq, unterminated_end).map_err(|e| Fail::new("MACHINERY", e))?;
    let (want, want_cfg) = reference_run(cx, cfg, alpha, seq);
    let names: Vec<&str> = seq.iter().map(|i| alpha[*i].0).collect();
    // get_subscription_count and get_status carry no connection-specific data here; compare canonically
    let g: Vec<String> = got.iter().map(|x| canon_json(x)).collect();
    let w: Vec<String> = want.iter().map(|x| canon_json(x)).collect();
    if g != w {
        return Err(Fail::new(
            "socket-loop-answers-differ-from-dispatch",
            format!("lines {names:?}{} (start config {cfg:?}): the control socket answered {got:?}, the dispatcher answers {want:?} to the same lines", if unterminated_end { ", closing request without a trailing newline before the client half-closes" } else { "" }),
        ));
    }
    if format!("{end_cfg:?}") != format!("{want_cfg:?}") {
        return Err(Fail::new(
            "socket-loop-config-differs-from-dispatch",
            format!("lines {names:?}: configuration after the socket run {end_cfg:?}, after dispatching the same lines {want_cfg:?}"),
        ));
    }
    Ok(())
}

/// A request that reaches the socket in two chunks while the connection holds a subscription and an event
/// is pushed between the chunks: the request is still answered once, with its id. Every split point of the
/// request line x {no push, one push, two pushes} between the chunks.
fn socket_push_between_chunks(rep: &mut Report) {
    use tokio::io::{AsyncBufReadExt, AsyncWriteExt, BufReader};
    let request = "{\"jsonrpc\":\"2.0\",\"id\":42,\"method\":\"set_conn_timeout\",\"params\":{\"ms\":7000}}";
    let dir = crate::evidence::verif_root().join("target");
    let path = dir.join(format!(".c18-push-{}.sock", std::process::id()));
    let path = path.to_str().unwrap().to_string();
    let rt = tokio::runtime::Builder::new_current_thread().enable_all().build().expect("runtime");
    let mut runs = 0u64;
    let mut first_fail: Option<(usize, usize, String)> = None;
    let mut fails = 0u64;
    let one = |split: usize, pushes: usize| -> Result<Option<String>, String> {
        let path = path.clone();
        rt.block_on(async move {
            let _ = std::fs::remove_file(&path);
            let cfg = DynamicConfig::new();
            let hub = SubscriptionHub::new();
            let server = srtla_send::control_socket::spawn(path.clone(), cfg.clone(), SharedStats::new(), CriticalWindow::new(), hub.clone());
            let mut stream = None;
            for _ in 0..2000 {
                match tokio::net::UnixStream::connect(&path).await {
                    Ok(s) => {
                        stream = Some(s);
                        break;
                    }
                    Err(_) => tokio::time::sleep(std::time::Duration::from_millis(1)).await,
                }
            }
            let Some(stream) = stream else {
                server.abort();
                return Err("control socket did not come up".to_string());
            };
            let (rd, mut wr) = stream.into_split();
            let mut rd = BufReader::new(rd);
            let mut line = String::new();
            wr.write_all(b"{\"jsonrpc\":\"2.0\",\"id\":1,\"method\":\"subscribe\",\"params\":{\"topic\":\"stats\"}}\n").await.map_err(|e| e.to_string())?;
            match tokio::time::timeout(std::time::Duration::from_secs(3), rd.read_line(&mut line)).await {
                Ok(Ok(n)) if n > 0 && line.contains("\"result\"") => {}
                other => {
                    server.abort();
                    return Err(format!("subscribe was not answered: {other:?} {line:?}"));
                }
            }
            line.clear();
            wr.write_all(request[..split].as_bytes()).await.map_err(|e| e.to_string())?;
            wr.flush().await.ok();
            tokio::time::sleep(std::time::Duration::from_millis(2)).await;
            for k in 0..pushes {
                hub.publish("stats", json!({"n": k})).await;
                tokio::time::sleep(std::time::Duration::from_millis(2)).await;
            }
            wr.write_all(request[split..].as_bytes()).await.map_err(|e| e.to_string())?;
            wr.write_all(b"\n").await.map_err(|e| e.to_string())?;
            // read until the answer to id 42 (or a parse error with a null id), skipping pushed events
            let mut verdict: Option<String> = None;
            let mut answers = 0;
            for _ in 0..(pushes + 3) {
                line.clear();
                // until the answer has come: wait for it; after that: a short grace period for a second one
                let wait = if answers == 0 { 600 } else { 25 };
                match tokio::time::timeout(std::time::Duration::from_millis(wait), rd.read_line(&mut line)).await {
                    Ok(Ok(n)) if n > 0 => {
                        let v: Value = serde_json::from_str(line.trim()).unwrap_or(Value::Null);
                        if v.get("method").is_some() {
                            continue; // a pushed event
                        }
                        answers += 1;
                        if v["id"] != 42 || v["result"]["ms"] != 7000 {
                            verdict = Some(format!("answered {}", line.trim()));
                        }
                    }
                    _ => break,
                }
            }
            server.abort();
            let _ = std::fs::remove_file(&path);
            if verdict.is_none() && answers != 1 {
                verdict = Some(format!("{answers} answers"));
            }
            if verdict.is_none() && cfg.snapshot().conn_timeout_ms != 7000 {
                verdict = Some("answered, but the timeout was not applied".into());
            }
            Ok(verdict)
        })
    };
    for split in 1..request.len() {
        for pushes in 0..=2usize {
            runs += 1;
            match one(split, pushes) {
                Ok(None) => {}
                Ok(Some(bad)) => {
                    // confirm before it counts
                    if matches!(one(split, pushes), Ok(Some(_))) {
                        fails += 1;
                        if first_fail.is_none() {
                            first_fail = Some((split, pushes, bad));
                        }
                    } else if rep.machinery_errors.len() < 3 {
                        rep.machinery_errors.push(format!("socket push-between-chunks: split {split}, {pushes} pushes: '{bad}' did not reproduce"));
                    }
                }
                Err(e) => {
                    if rep.machinery_errors.len() < 3 {
                        rep.machinery_errors.push(format!("socket push-between-chunks: {e}"));
                    }
                }
            }
        }
    }
    rep.traces += runs;
    rep.transitions += runs * 4;
    rep.set("socket_push_between_chunks", json!({"request_bytes": request.len(), "split_points": request.len() - 1, "pushes_between_the_chunks": [0, 1, 2], "runs": runs}));
    if let Some((split, pushes, bad)) = first_fail {
        rep.add_violation(Violation {
            key: "socket-request-in-two-chunks-lost-across-a-push".into(),
            message: format!("a set_conn_timeout request (id 42) written to the control socket in two chunks (first {split} bytes, then the rest) on a connection subscribed to 'stats', with {pushes} event(s) published between the chunks, was {bad} instead of answered once with id 42 ({fails} of {runs} split/push combinations fail)"),
            replay: json!({"exploration": "socket-push-between-chunks", "split": split, "pushes": pushes}),
        });
        rep.count_violation("socket-request-in-two-chunks-lost-across-a-push", fails.saturating_sub(1));
    }
}

fn socket_loop_exploration(rep: &mut Report, depth: usize) {
    let alpha = loop_alphabet();
    let cfgs = start_configs();
    let cfgs = &cfgs[..cfgs.len().min(2)];
    let mut seqs: Vec<Vec<usize>> = Vec::new();
    fn gen_seqs(out: &mut Vec<Vec<usize>>, cur: &mut Vec<usize>, n: usize, depth: usize) {
        if !cur.is_empty() {
            out.push(cur.clone());
        }
        if cur.len() == depth {
            return;
        }
        for i in 0..n {
            cur.push(i);
            gen_seqs(out, cur, n, depth);
            cur.pop();
        }
    }
    gen_seqs(&mut seqs, &mut Vec::new(), alpha.len(), depth);
    let jobs: Vec<(usize, usize)> = (0..cfgs.len()).flat_map(|c| (0..seqs.len()).map(move |s| (c, s))).collect();
    let chunks: Vec<&[(usize, usize)]> = jobs.chunks(64).collect();
    let fails: Mutex<Vec<(usize, usize, Fail)>> = Mutex::new(Vec::new());
    let dir = crate::evidence::verif_root().join("target");
    par_map(chunks.len(), 16, |j| {
        let rt = tokio::runtime::Builder::new_current_thread().enable_all().build().expect("runtime");
        let cx = Ctx { stats: SharedStats::new(), crit: CriticalWindow::new() };
        let path = dir.join(format!(".c18-{}-{j}.sock", std::process::id()));
        let path = path.to_str().unwrap().to_string();
        for &(c, sq) in chunks[j] {
            // a failing run may have to wait out its read timeout: a dozen counterexamples are enough
            if fails.lock().unwrap().len() >= 12 {
                break;
            }
            if let Err(f) = socket_loop_one(&rt, &path, &cx, &cfgs[c], &alpha, &seqs[sq]) {
                // confirm on a second run before it counts
                let again = socket_loop_one(&rt, &path, &cx, &cfgs[c], &alpha, &seqs[sq]);
                let f = match again {
                    Err(f2) if f2.key == f.key => f,
                    other => Fail::new("MACHINERY", format!("socket loop: [{}] did not reproduce ({:?})", f.key, other.err().map(|x| x.key))),
                };
                fails.lock().unwrap().push((c, sq, f));
            }
        }
    });
    rep.traces += jobs.len() as u64;
    rep.transitions += jobs.iter().map(|(_, s)| seqs[*s].len() as u64 + 1).sum::<u64>();
    if fails.lock().unwrap().len() >= 12 {
        rep.exhaustive = false;
    }
    rep.set("socket_loop", json!({"alphabet": alpha.iter().map(|a| a.0).collect::<Vec<_>>(), "depth": depth, "sequences": seqs.len(), "start_configurations": cfgs.len(), "runs": jobs.len()}));
    let mut fl = fails.into_inner().unwrap();
    fl.sort_by_key(|x| (seqs[x.1].len(), x.1, x.0));
    for (c, sq, f) in fl {
        if f.key == "MACHINERY" {
            if rep.machinery_errors.len() < 4 {
                rep.machinery_errors.push(f.msg);
            }
            continue;
        }
        rep.add_violation(Violation { key: f.key.clone(), message: f.msg, replay: json!({"exploration": "socket-loop", "config": c, "sequence": seqs[sq]}) });
    }
}

fn start_configs() -> Vec<Cfg> {
    let mut v = vec![Cfg::of(&DynamicConfig::new())];
    for t in [0u64, 999, 1000, 60000, 60001, u64::MAX] {
        v.push(Cfg::of(&DynamicConfig::from_cli(SchedulingMode::Classic, true, true, 1, 500, t)));
    }
    v
}

// ---------------------------------------------------------------------------
// (3) concurrent setters and readers

#[derive(Clone, Copy, Debug)]
enum Op {
    Mode(bool),
    Quality(bool),
    Stall(bool),
    Timeout(u64),
    /// through the real dispatcher
    LineTimeout(u64),
}

/// Applies the operation; for the timeout setters returns (requested, value echoed to the caller).
fn apply_op(c: &DynamicConfig, op: Op) -> Option<(u64, u64)> {
    match op {
        Op::Mode(classic) => c.set_mode(if classic { SchedulingMode::Classic } else { SchedulingMode::Enhanced }),
        Op::Quality(b) => c.set_quality_enabled(b),
        Op::Stall(b) => c.set_stall_deselect(b),
        Op::Timeout(ms) => {
            return Some((ms, c.set_conn_timeout_ms(ms)));
        }
        Op::LineTimeout(ms) => {
            let r = dispatch(c, None, None, &format!("{{\"jsonrpc\":\"2.0\",\"id\":9,\"method\":\"set_conn_timeout\",\"params\":{{\"ms\":{ms}}}}}")).map(|r| r.to_json());
            let echoed = r.and_then(|t| serde_json::from_str::<Value>(&t).ok()).and_then(|v| v["result"]["ms"].as_u64().or(v["result"]["conn_timeout_ms"].as_u64()).or(v["result"].as_u64()));
            return echoed.map(|e| (ms, e));
        }
    }
    None
}

struct ConcOut {
    cap_hit: bool,
    schedules: u64,
    steps: u64,
    outcomes: usize,
    violation: Option<(String, String, Vec<usize>)>,
}

fn conc_one(setters: &[Vec<Op>], readers: usize, bound: usize, cap: u64) -> ConcOut {
    let init = Cfg::of(&DynamicConfig::new());
    // per field: values anybody writes (after clamping) + the initial value
    let mut legal_timeout: BTreeSet<u64> = [init.timeout].into();
    let mut writes_mode: Vec<bool> = vec![];
    let mut writes_quality: Vec<bool> = vec![];
    let mut writes_stall: Vec<bool> = vec![];
    for s in setters {
        for op in s {
            match op {
                Op::Mode(b) => writes_mode.push(*b),
                Op::Quality(b) => writes_quality.push(*b),
                Op::Stall(b) => writes_stall.push(*b),
                Op::Timeout(ms) | Op::LineTimeout(ms) => {
                    legal_timeout.insert((*ms).clamp(1000, 60000));
                }
            }
        }
    }
    // last write per setter thread and field (for the after-join rule)
    let last_per_thread = |f: &dyn Fn(&Op) -> Option<u64>| -> Vec<u64> { setters.iter().filter_map(|s| s.iter().rev().find_map(f)).collect() };
    let last_timeout = last_per_thread(&|op| match op {
        Op::Timeout(ms) | Op::LineTimeout(ms) => Some((*ms).clamp(1000, 60000)),
        _ => None,
    });
    let last_mode = last_per_thread(&|op| if let Op::Mode(b) = op { Some(*b as u64) } else { None });
    let last_quality = last_per_thread(&|op| if let Op::Quality(b) = op { Some(*b as u64) } else { None });
    let last_stall = last_per_thread(&|op| if let Op::Stall(b) = op { Some(*b as u64) } else { None });

    let mut outcomes: BTreeSet<String> = BTreeSet::new();
    let mut exec = |prefix: &[usize]| -> Result<crate::sched::Execution, (String, String)> {
        let cfg = DynamicConfig::new();
        let seen: Arc<Mutex<Vec<Cfg>>> = Default::default();
        let echoes: Arc<Mutex<Vec<(u64, u64)>>> = Default::default();
        let mut bodies: Vec<Box<dyn FnOnce() + Send>> = Vec::new();
        for s in setters {
            let c = cfg.clone();
            let ops = s.clone();
            let echoes = echoes.clone();
            bodies.push(Box::new(move || {
                for op in ops {
                    if let Some(e) = apply_op(&c, op) {
                        echoes.lock().unwrap().push(e);
                    }
                }
            }));
        }
        for _ in 0..readers {
            let c = cfg.clone();
            let seen = seen.clone();
            bodies.push(Box::new(move || {
                // the status a control client sees: six atomic loads
                let s1 = Cfg::of(&c);
                seen.lock().unwrap().push(s1);
                let r = dispatch(&c, None, None, r#"{"jsonrpc":"2.0","id":1,"method":"get_status"}"#).map(|r| r.to_json());
                if let Some(t) = r {
                    if let Ok(v) = serde_json::from_str::<Value>(&t) {
                        let st = &v["result"];
                        seen.lock().unwrap().push(Cfg {
                            classic: st["mode"] == "classic",
                            quality: st["quality_enabled"].as_bool().unwrap_or(true),
                            stall: st["stall_deselect"].as_bool().unwrap_or(true),
                            min_in_flight: st["stall_min_in_flight"].as_i64().unwrap_or(0) as i32,
                            stale_ms: st["stall_ack_stale_ms"].as_u64().unwrap_or(0),
                            timeout: st["conn_timeout_ms"].as_u64().unwrap_or(0),
                        });
                    }
                }
            }));
        }
        let x = run_threads(bodies, prefix).map_err(|e| ("MACHINERY".to_string(), e))?;
        let sched: Vec<usize> = x.points.iter().map(|p| p.enabled[p.chosen]).collect();
        let fail = |k: &str, m: String| Err((k.to_string(), format!("{m}; setters {setters:?}; schedule (thread ids) {sched:?}")));
        let snaps = seen.lock().unwrap().clone();
        // "echoed as applied": every setter is told the value its own request was clamped to
        for (asked, echoed) in echoes.lock().unwrap().iter() {
            if *echoed != (*asked).clamp(1000, 60000) {
                return fail("timeout-echo-is-not-the-applied-value", format!("set_conn_timeout({asked}) was answered {echoed}, the value applied for it is {}", (*asked).clamp(1000, 60000)));
            }
        }
        for s in &snaps {
            if !(1000..=60000).contains(&s.timeout) {
                return fail("snapshot-timeout-outside-clamp", format!("a reader observed conn_timeout_ms = {}", s.timeout));
            }
            if !legal_timeout.contains(&s.timeout) {
                return fail("snapshot-value-nobody-wrote", format!("a reader observed conn_timeout_ms = {} (legal {legal_timeout:?})", s.timeout));
            }
            if s.min_in_flight != init.min_in_flight || s.stale_ms != init.stale_ms {
                return fail("snapshot-value-nobody-wrote", format!("a reader observed thresholds {s:?} that nobody wrote"));
            }
            if s.classic != init.classic && !writes_mode.contains(&s.classic) || s.quality != init.quality && !writes_quality.contains(&s.quality) || s.stall != init.stall && !writes_stall.contains(&s.stall) {
                return fail("snapshot-value-nobody-wrote", format!("a reader observed {s:?}"));
            }
        }
        let fin = Cfg::of(&cfg);
        let ok_last = |last: &[u64], val: u64, initial: u64| if last.is_empty() { val == initial } else { last.contains(&val) };
        if !ok_last(&last_timeout, fin.timeout, init.timeout)
            || !ok_last(&last_mode, fin.classic as u64, init.classic as u64)
            || !ok_last(&last_quality, fin.quality as u64, init.quality as u64)
            || !ok_last(&last_stall, fin.stall as u64, init.stall as u64)
        {
            return fail("final-configuration-not-a-last-write", format!("after all threads joined the configuration is {fin:?}"));
        }
        outcomes.insert(format!("{fin:?}|{snaps:?}"));
        Ok(crate::sched::Execution { points: x.points, deadlock: None, steps: x.steps })
    };
    let mut out = ConcOut { cap_hit: false, schedules: 0, steps: 0, outcomes: 0, violation: None };
    for b in 0..=bound {
        match crate::sched::explore_schedules(b, cap, &mut exec) {
            Ok(st) => {
                if b == bound {
                    out.schedules = st.executions;
                    out.steps = st.steps;
                    out.cap_hit = st.cap_hit;
                }
            }
            Err(v) => {
                out.violation = Some(v);
                break;
            }
        }
    }
    out.outcomes = outcomes.len();
    out
}

fn conc_configs() -> Vec<(Vec<Vec<Op>>, usize)> {
    vec![
        (vec![vec![Op::Timeout(500)], vec![Op::Timeout(70_000)]], 1),
        (vec![vec![Op::Timeout(500), Op::Mode(true)], vec![Op::LineTimeout(15_000), Op::Quality(false)]], 1),
        (vec![vec![Op::Mode(true), Op::Mode(false)], vec![Op::Stall(false), Op::Timeout(2000)]], 2),
        (vec![vec![Op::LineTimeout(0)], vec![Op::LineTimeout(u64::MAX)]], 2),
    ]
}

pub fn run(tier: Tier) -> Report {
    let mut rep = Report::new();
    let cx = Ctx { stats: SharedStats::new(), crit: CriticalWindow::new() };
    // ---- (1) line grammar
    progress("C18", "line grammar product through dispatch / dispatch_async");
    let lines = grammar();
    let starts = start_configs();
    let use_starts: Vec<Cfg> = if tier.is_quick() { vec![starts[0].clone(), starts[5].clone()] } else { starts.clone() };
    let fails: Mutex<Vec<Violation>> = Mutex::new(Vec::new());
    let fail_n: Mutex<std::collections::BTreeMap<String, u64>> = Mutex::new(Default::default());
    let outcomes: Mutex<BTreeSet<u64>> = Mutex::new(Default::default());
    let record = |f: Fail, replay: Value| {
        *fail_n.lock().unwrap().entry(f.key.clone()).or_insert(0) += 1;
        let mut v = fails.lock().unwrap();
        if v.iter().filter(|x| x.key == f.key).count() < 3 {
            v.push(Violation { key: f.key.clone(), message: f.msg.clone(), replay });
        }
    };
    let chunks = 64usize;
    par_map(chunks, 16, |ch| {
        let cx = Ctx { stats: SharedStats::new(), crit: CriticalWindow::new() };
        let mut local = BTreeSet::new();
        for (i, l) in lines.iter().enumerate() {
            if i % chunks != ch {
                continue;
            }
            for c in &use_starts {
                match judge_line(&cx, c, l) {
                    Ok((_, o)) => {
                        local.insert(o);
                    }
                    Err(f) => record(f, json!({"kind": "line", "text": l.text, "shape": format!("{:?}", l.shape), "start": format!("{c:?}")})),
                }
            }
        }
        outcomes.lock().unwrap().extend(local);
    });
    let n_lines = (lines.len() * use_starts.len()) as u64;
    rep.traces += n_lines;
    rep.transitions += n_lines * 3;
    rep.set("grammar_lines", json!(lines.len()));
    rep.set("start_configurations", json!(use_starts.iter().map(|c| format!("{c:?}")).collect::<Vec<_>>()));
    let by_shape: Vec<(String, usize)> = [Shape::Blank, Shape::NotJson, Shape::NotRequest, Shape::Unspecified, Shape::Request]
        .iter()
        .map(|s| (format!("{s:?}"), lines.iter().filter(|l| l.shape == *s).count()))
        .collect();
    rep.set("lines_by_shape", json!(by_shape));
    // ---- (2) command sequences
    progress("C18", "command sequences against the configuration model");
    let depth = if tier.is_quick() { 4 } else { 5 };
    let cmd_lines: Vec<Line> = COMMANDS
        .iter()
        .map(|t| Line {
            text: t.to_string(),
            shape: if serde_json::from_str::<Value>(t).is_ok() { Shape::Request } else { Shape::NotJson },
        })
        .collect();
    let total_seq = std::sync::atomic::AtomicU64::new(0);
    par_map(COMMANDS.len() * starts.len().min(3), 16, |job| {
        let first = job % COMMANDS.len();
        let start = &starts[[0usize, 2, 6][job / COMMANDS.len()].min(starts.len() - 1)];
        let cx = Ctx { stats: SharedStats::new(), crit: CriticalWindow::new() };
        fn rec(cx: &Ctx, cfg: &Cfg, lines: &[Line], d: usize, path: &mut Vec<usize>, n: &std::sync::atomic::AtomicU64, record: &dyn Fn(Fail, Value)) {
            if d == 0 {
                n.fetch_add(1, std::sync::atomic::Ordering::Relaxed);
                return;
            }
            for (i, l) in lines.iter().enumerate() {
                path.push(i);
                match judge_line(cx, cfg, l) {
                    Ok((next, _)) => {
                        // the next status / snapshot equals the model: judged by the get_status line and by c0 == next
                        rec(cx, &next, lines, d - 1, path, n, record);
                    }
                    Err(f) => record(f, json!({"kind": "sequence", "commands": path.clone(), "start": format!("{cfg:?}")})),
                }
                path.pop();
            }
        }
        let mut path = vec![first];
        match judge_line(&cx, start, &cmd_lines[first]) {
            Ok((next, _)) => rec(&cx, &next, &cmd_lines, depth - 1, &mut path, &total_seq, &record),
            Err(f) => record(f, json!({"kind": "sequence", "commands": path.clone(), "start": format!("{start:?}")})),
        }
    });
    let nseq = total_seq.load(std::sync::atomic::Ordering::Relaxed);
    rep.traces += nseq;
    rep.transitions += nseq * depth as u64;
    rep.set("command_sequences", json!({"commands": COMMANDS.len(), "depth": depth, "sequences": nseq}));
    // ---- (3) concurrency
    progress("C18", "thread schedules of setters and readers");
    let bound = if tier.is_quick() { 2 } else { 3 };
    let mut conc_rows = Vec::new();
    for (setters, readers) in conc_configs() {
        let o = conc_one(&setters, readers, bound, if tier.is_quick() { 1_200 } else { 200_000 });
        rep.traces += o.schedules;
        rep.transitions += o.steps;
        if o.cap_hit {
            rep.exhaustive = false;
        }
        conc_rows.push(json!({"cap_hit": o.cap_hit, "setters": format!("{setters:?}"), "readers": readers, "preemption_bound": bound, "schedules": o.schedules, "switch_points_executed": o.steps, "distinct_outcomes": o.outcomes}));
        if let Some((k, m, prefix)) = o.violation {
            if k == "MACHINERY" {
                rep.machinery_errors.push(m);
            } else {
                record(Fail::new(&k, m), json!({"kind": "schedule", "setters": format!("{setters:?}"), "choices": prefix}));
            }
        } else if o.outcomes < 2 {
            rep.machinery_errors.push(format!("concurrency harness {setters:?}: a single outcome over {} schedules — nothing interleaved", o.schedules));
        }
        rep.states += o.outcomes as u64;
    }
    rep.set("concurrency", json!(conc_rows));
    // ---- (4) the real connection loop of the control socket
    progress("C18", "line sequences through the real control socket");
    socket_loop_exploration(&mut rep, if tier.is_quick() { 3 } else { 4 });
    socket_push_between_chunks(&mut rep);
    rep.states += outcomes.lock().unwrap().len() as u64;
    rep.samples.push(json!({"line": lines[lines.len() / 2].text, "shape": format!("{:?}", lines[lines.len() / 2].shape)}));
    rep.samples.push(json!({"command_sequence": [COMMANDS[6], COMMANDS[9], COMMANDS[11]]}));
    rep.set("oracle", json!("never panics; reference model over serde_json::Value with the generator's own shape tag: request-shaped object (string jsonrpc, string method) with a non-null id => exactly one response, jsonrpc 2.0, id echoed, exactly one of result/error, error code per the statement's table (-32600 wrong version, -32601 unknown method, -32602 bad parameters), results equal the model's; without id (or id null) => no response and the same state change; not request-shaped => at most one response, and then code -32700 with id null, no state change; configuration after every line equals the six-field model; timeout always within [1000, 60000] and echoed as applied; dispatch, dispatch_async without and with a subscription context answer byte-identically and change the configuration identically for every line whose method is not a subscription method. Concurrency: every value a reader observes was written by somebody (after clamping) or is initial; the timeout is within the clamp in every snapshot; after join every field holds some thread's last write"));
    rep.assume("bytes that are not valid UTF-8 never reach dispatch(&str); the stdin read loop (a thread reading the process's stdin) is not explored; the socket connection loop is: every sequence of <= 3 (thorough: 4) symbols of a 12-symbol alphabet (requests, notifications, blank and malformed lines, a line written in two chunks, two lines in one write) is written to a real Unix socket served by control_socket::spawn, and the answers and the resulting configuration must equal those of the synchronous dispatcher on the same lines");
    rep.assume("JSON arrays that positionally spell a request (serde accepts a struct from a sequence) are not specified by the statement: only totality and response shape are judged for them, not their effect");
    rep.assume("thread schedules are sequentially consistent interleavings at atomic-access granularity (every atomic access of DynamicConfig passes through a switch point); weak-memory reorderings of Relaxed atomics are not modelled");
    for v in fails.lock().unwrap().drain(..) {
        rep.violations.push(v);
    }
    for (k, n) in fail_n.lock().unwrap().iter() {
        rep.count_violation(k, *n);
    }
    let _ = cx;
    rep
}

pub fn replay(v: &Value) -> Result<(), String> {
    let cx = Ctx { stats: SharedStats::new(), crit: CriticalWindow::new() };
    if v["exploration"] == "socket-push-between-chunks" {
        let mut r = Report::new();
        socket_push_between_chunks(&mut r);
        return match r.violations.first() {
            None => Ok(()),
            Some(x) => Err(format!("[{}] {}", x.key, x.message)),
        };
    }
    if v["exploration"] == "socket-loop" {
        let alpha = loop_alphabet();
        let cfgs = start_configs();
        let c = v["config"].as_u64().unwrap_or(0) as usize;
        let seq: Vec<usize> = v["sequence"].as_array().ok_or("MACHINERY: no sequence")?.iter().map(|x| x.as_u64().unwrap_or(0) as usize).collect();
        let rt = tokio::runtime::Builder::new_current_thread().enable_all().build().map_err(|e| format!("MACHINERY: {e}"))?;
        let path = crate::evidence::verif_root().join("target").join(format!(".c18-replay-{}.sock", std::process::id()));
        let path = path.to_str().unwrap().to_string();
        let r1 = socket_loop_one(&rt, &path, &cx, &cfgs[c.min(cfgs.len() - 1)], &alpha, &seq);
        let r2 = socket_loop_one(&rt, &path, &cx, &cfgs[c.min(cfgs.len() - 1)], &alpha, &seq);
        if r1.as_ref().err().map(|f| f.key.clone()) != r2.as_ref().err().map(|f| f.key.clone()) {
            return Err("MACHINERY: two replays disagree".into());
        }
        return match r1 {
            Ok(()) => Ok(()),
            Err(f) if f.key == "MACHINERY" => Err(format!("MACHINERY: {}", f.msg)),
            Err(f) => Err(format!("[{}] {}", f.key, f.msg)),
        };
    }
    match v["kind"].as_str() {
        Some("line") => {
            let text = v["text"].as_str().unwrap_or("").to_string();
            let shape = grammar().into_iter().find(|l| l.text == text).map(|l| l.shape).ok_or("MACHINERY: line not in the grammar")?;
            for c in start_configs() {
                if format!("{c:?}") == v["start"].as_str().unwrap_or("") {
                    return judge_line(&cx, &c, &Line { text, shape }).map(|_| ()).map_err(|f| format!("[{}] {}", f.key, f.msg));
                }
            }
            Err("MACHINERY: start configuration not found".into())
        }
        Some("sequence") => {
            let cmds: Vec<usize> = v["commands"].as_array().map(|a| a.iter().map(|x| x.as_u64().unwrap_or(0) as usize).collect()).unwrap_or_default();
            for start in start_configs() {
                let mut cfg = start.clone();
                let mut bad = None;
                for i in &cmds {
                    let t = COMMANDS[*i];
                    let shape = if serde_json::from_str::<Value>(t).is_ok() { Shape::Request } else { Shape::NotJson };
                    match judge_line(&cx, &cfg, &Line { text: t.to_string(), shape }) {
                        Ok((n, _)) => cfg = n,
                        Err(f) => {
                            bad = Some(format!("[{}] {}", f.key, f.msg));
                            break;
                        }
                    }
                }
                if let Some(b) = bad {
                    return Err(b);
                }
            }
            Ok(())
        }
        Some("schedule") => {
            for (setters, readers) in conc_configs() {
                if format!("{setters:?}") == v["setters"].as_str().unwrap_or("") {
                    let o = conc_one(&setters, readers, 3, 200_000);
                    return match o.violation {
                        None => Ok(()),
                        Some((k, m, _)) => Err(format!("[{k}] {m}")),
                    };
                }
            }
            Err("MACHINERY: harness not found".into())
        }
        _ => Err("MACHINERY: unknown artefact kind".into()),
    }
}
