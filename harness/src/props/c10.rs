//! C10 — classic mode reproduces the reference srtla_send algorithm.
//! World + history exploration in lock-step with an independent
//! re-implementation of the reference rules (in `stream.rs`).

use std::sync::Arc;
use std::time::Duration;

use serde_json::{Value, json};

use super::stream::*;
use crate::engine::{self, Limits, Model, Plan};
use crate::evidence::{Report, Tier};
use crate::world::glue_fingerprint;

fn alphabet(n: usize, reduced: bool) -> Vec<SEv> {
    let mut v = vec![SEv::Cdata, SEv::UlaOwn(0), SEv::UlaOwn(1), SEv::Tflush, SEv::Crtx, SEv::UnakSingle(0), SEv::Thk(1000), SEv::Cburst(16), SEv::UnakRtx(1)];
    if !reduced {
        v.extend([SEv::Cctl, SEv::Crit(500), SEv::UlaOther(0), SEv::UsrtAck(1), SEv::UnakDup(1), SEv::Thk(2500), SEv::Uka(0), SEv::Uka(1)]);
        for l in 2..n {
            v.push(SEv::UlaOwn(l));
            v.push(SEv::Uka(l));
        }
    }
    v
}

fn inits() -> Vec<(String, InitKind)> {
    vec![
        ("S7 live, classic, guard off".to_string(), InitKind::Live { classic: true }),
        ("S7 streaming, classic, guard off".to_string(), InitKind::Streaming { classic: true }),
        ("S7 link 0 after REG_ERR, classic".to_string(), InitKind::AfterRegErr { link: 0, classic: true }),
    ]
}

/// "starting from any window vector": the two edges of the range
fn edge_inits() -> Vec<(String, InitKind)> {
    vec![
        ("S7 streaming, classic, windows at the floor (1000, 1037, 1100, ...)".to_string(), InitKind::WindowEdge { floor: true }),
        ("S7 streaming, classic, windows at the ceiling (60000, 59999, 59972, ...)".to_string(), InitKind::WindowEdge { floor: false }),
    ]
}

fn models(tier: Tier) -> Vec<(String, Arc<StreamModel>, Vec<Plan>)> {
    // the attribution clause of C05 rides along: '-100 per charged NAK' presupposes that the right link is charged
    let or = Oracles { c01: false, c03: true, c04: false, c10: true, c05: true };
    let mk = |name: &str, n: usize, reduced: bool| {
        Arc::new(StreamModel { name: name.to_string(), n, events: alphabet(n, reduced), inits: inits(), or })
    };
    let mk_edge = |name: &str, n: usize, reduced: bool| {
        Arc::new(StreamModel { name: name.to_string(), n, events: alphabet(n, reduced), inits: edge_inits(), or })
    };
    let closed_loop: Arc<dyn Fn(usize) -> usize + Send + Sync> = Arc::new(|p| match p % 8 {
        7 => 3,          // Tflush
        1 | 5 => 1,      // UlaOwn(0)
        3 => 2,          // UlaOwn(1)
        _ => 0,          // Cdata
    });
    let mut out = Vec::new();
    if tier.is_quick() {
        let m = mk("links=2 reduced alphabet", 2, true);
        out.push((m.name.clone(), m, vec![Plan::Full { depth: 5 }, Plan::Dev { k: 1, depth: 120, default: closed_loop.clone() }]));
        let m = mk("links=2 full alphabet", 2, false);
        out.push((m.name.clone(), m, vec![Plan::Full { depth: 4 }]));
        let m = mk("links=3 reduced alphabet", 3, true);
        out.push((m.name.clone(), m, vec![Plan::Full { depth: 4 }]));
        let m = mk_edge("window edges links=2 reduced alphabet", 2, true);
        out.push((m.name.clone(), m, vec![Plan::Full { depth: 5 }]));
        let m = mk_edge("window edges links=2 full alphabet", 2, false);
        out.push((m.name.clone(), m, vec![Plan::Full { depth: 4 }]));
        let m = mk_edge("window edges links=3 reduced alphabet", 3, true);
        out.push((m.name.clone(), m, vec![Plan::Full { depth: 4 }]));
    } else {
        let m = mk("links=2 reduced alphabet", 2, true);
        out.push((m.name.clone(), m, vec![Plan::Full { depth: 6 }, Plan::Dev { k: 2, depth: 200, default: closed_loop.clone() }]));
        let m = mk("links=2 full alphabet", 2, false);
        out.push((m.name.clone(), m, vec![Plan::Full { depth: 5 }]));
        let m = mk("links=3 full alphabet", 3, false);
        out.push((m.name.clone(), m, vec![Plan::Full { depth: 4 }, Plan::Dev { k: 2, depth: 80, default: closed_loop.clone() }]));
        let m = mk("links=4 full alphabet", 4, false);
        out.push((m.name.clone(), m, vec![Plan::Full { depth: 4 }]));
        let m = mk_edge("window edges links=2 reduced alphabet", 2, true);
        out.push((m.name.clone(), m, vec![Plan::Full { depth: 6 }, Plan::Dev { k: 2, depth: 60, default: closed_loop.clone() }]));
        let m = mk_edge("window edges links=2 full alphabet", 2, false);
        out.push((m.name.clone(), m, vec![Plan::Full { depth: 5 }]));
        let m = mk_edge("window edges links=3 full alphabet", 3, false);
        out.push((m.name.clone(), m, vec![Plan::Full { depth: 4 }]));
    }
    out
}

pub fn run(tier: Tier) -> Report {
    let mut rep = Report::new();
    if let Err(e) = glue_fingerprint() {
        rep.machinery_errors.push(e);
        return rep;
    }
    let lim = Limits {
        wall: Duration::from_secs(if tier.is_quick() { 40 } else { 2400 }),
        ..Default::default()
    };
    for (label, m, plans) in models(tier) {
        for plan in plans {
            let ex = engine::explore(&*m, &plan, &lim);
            engine::fold(&mut rep, &*m, &format!("{label} {}", plan.describe()), &plan, ex);
        }
        rep.set(
            &format!("alphabet[{label}]"),
            json!((0..m.n_events()).map(|e| m.event_name(e)).collect::<Vec<_>>()),
        );
    }
    rep.set("inits", json!(inits().iter().chain(edge_inits().iter()).map(|i| i.0.clone()).collect::<Vec<_>>()));
    rep.set("oracle", json!("reference rules written from the statement, integers only: choice = first maximum over usable links of window / (in-flight + queued + 1) (integer division), whatever the packet kind, R flag or critical window; SRTLA ACK: the holder (arrival link first, else first other) gains +29 iff in-flight x 1000 > window after the decrement, then every connected link that has been heard gains +1, all capped at 60000; -100 per charged NAK floored at 1000; housekeeping never moves a window except a teardown back to 20000. After every client datagram the link that received the unique copy equals the reference choice; after every uplink datagram and housekeeping pass all windows equal the reference windows"));
    rep.assume("mode classic and guard off are set through the real control dispatcher; start windows are those the scripted real histories produce (20000 +- ACK/NAK steps)");
    rep.assume("the select! glue is mirrored (world.rs) and bound by a call-order + token digest fingerprint");
    rep
}

pub fn replay(v: &Value) -> Result<(), String> {
    let mut ms = Vec::new();
    for tier in [Tier::Quick, Tier::Thorough] {
        for (l, m, _) in models(tier) {
            ms.push((l, m));
        }
    }
    engine::replay_json(&ms, v)
}
