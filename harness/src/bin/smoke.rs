use srtla_send::config::DynamicConfig;
use srtla_verif::util::{T0, srt_data};
use srtla_verif::world::*;

fn main() {
    println!("glue: {:?}", glue_fingerprint());
    let mut env = Env::new();
    let t = std::time::Instant::now();
    let (mut w, mut rec) = established(&mut env, 2, DynamicConfig::new(), T0);
    println!("established in {:?}: connected={:?} phases={:?}", t.elapsed(), w.connections.iter().map(|c| c.connected).collect::<Vec<_>>(), w.connections.iter().map(|c| format!("{}", c.phase)).collect::<Vec<_>>());
    // stream
    let t = std::time::Instant::now();
    let mut total = 0;
    for i in 0..20000u32 {
        let o = w.arm_client(&mut env, &srt_data(100 + i, false, i, 200));
        total += o.wire.len();
        if i % 8 == 7 {
            w.advance(15);
            let o = w.arm_flush(&mut env);
            total += o.wire.len();
        }
    }
    println!("20000 packets: {:?}, wire datagrams {}", t.elapsed(), total);
    let t = std::time::Instant::now();
    for _ in 0..1000 { let _w2 = w.clone(); }
    println!("1000 clones: {:?}", t.elapsed());
    // housekeeping
    let t = std::time::Instant::now();
    for _ in 0..12 {
        w.advance(1000);
        let o = w.arm_housekeeping(&mut env);
        let r = rec.replies(&o.wire);
        println!(" hk at +{}: wire {:?} err {:?}", w.now - T0, o.wire.iter().map(|(l, b)| (l, pkt_type(b), b.len())).collect::<Vec<_>>(), o.hk_error);
        deliver(&mut env, &mut w, &r);
    }
    println!("12 hk: {:?}", t.elapsed());
    // fault: close rx 1
    w.rx_open[1] = false;
    for i in 0..6u32 {
        let o = w.arm_client(&mut env, &srt_data(90000 + i, false, i, 200));
        w.advance(15);
        let o2 = w.arm_flush(&mut env);
        println!(" fault step {i}: wire {:?}/{:?} connected {:?} sel {:?}", o.wire.len(), o2.wire.iter().map(|x| x.0).collect::<Vec<_>>(), w.connections.iter().map(|c| c.connected).collect::<Vec<_>>(), w.last_selected_idx);
    }
}
