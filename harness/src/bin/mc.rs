//! `mc <ID> quick|thorough` runs one check; `mc <ID> --replay <file>` re-executes
//! a recorded counterexample on the real code without the explorer.

use std::time::Instant;

use srtla_verif::evidence::{Tier, finish};
use srtla_verif::props;

fn main() {
    let args: Vec<String> = std::env::args().collect();
    if args.len() < 3 {
        eprintln!("usage: mc <ID> quick|thorough | mc <ID> --replay <file>");
        std::process::exit(2);
    }
    let id = args[1].to_uppercase();
    if id == "REALX" {
        // ad-hoc: mc REALX <level> <k> <depth> [timeout]
        use srtla_verif::realx::*;
        let level: u8 = args.get(2).and_then(|s| s.parse().ok()).unwrap_or(1);
        let k: usize = args.get(3).and_then(|s| s.parse().ok()).unwrap_or(1);
        let depth: usize = args.get(4).and_then(|s| s.parse().ok()).unwrap_or(20);
        let timeout: u64 = args.get(5).and_then(|s| s.parse().ok()).unwrap_or(5000);
        let m = LoopModel::new(2, timeout, false, level);
        let m = if std::env::var("LOCKSTEP").is_ok() { m.with_lockstep() } else { m };
        let keys: &[&str] = if std::env::var("LOCKSTEP").is_ok() { &["real:", "lockstep:"] } else { &["real:"] };
        let k = if k == 98 { 0 } else { k };
        let mut rep = srtla_verif::evidence::Report::new();
        let t0 = std::time::Instant::now();
        let plan = if let Ok(p) = std::env::var("REALX_PATH") {
            RealPlan::Explicit { name: "path".into(), paths: vec![p.split(',').filter_map(|x| x.trim().parse().ok()).collect()] }
        } else if k == 99 {
            RealPlan::Full { depth }
        } else {
            RealPlan::Dev { k, depth, default: 0 }
        };
        let cov = explore(&mut rep, &m, &plan, keys, std::time::Duration::from_secs(600));
        println!("{} {}: executions {} rounds {} distinct {} wall {:.1}s cov {:?}", m.name, plan.describe(), rep.traces, rep.transitions, rep.states, t0.elapsed().as_secs_f64(), cov);
        for v in &rep.violations {
            println!("  [{}] {}\n     {}", v.key, v.message, v.replay);
        }
        println!("counts {:?} machinery {:?}", rep.violation_counts, rep.machinery_errors);
        std::process::exit(0);
    }
    if id == "E2E-SPIKE" {
        // determinism probe of the real-loop engine: N runs on T threads must give one transcript
        let n: usize = args.get(2).and_then(|s| s.parse().ok()).unwrap_or(8);
        let threads: usize = args.get(3).and_then(|s| s.parse().ok()).unwrap_or(4);
        let outs = srtla_verif::engine::par_map(n, threads, |_| srtla_verif::e2e::spike());
        let mut distinct: std::collections::BTreeMap<String, usize> = Default::default();
        for o in outs {
            *distinct.entry(match o { Ok(t) => t, Err(e) => format!("ERROR {e}") }).or_insert(0) += 1;
        }
        for (t, c) in &distinct {
            println!("---- {c} run(s):\n{t}");
        }
        println!("distinct transcripts: {}", distinct.len());
        std::process::exit(if distinct.len() == 1 { 0 } else { 2 });
    }
    // keep the real code's logging quiet and panics short
    if std::env::var("VERIF_DEBUG").is_err() {
        std::panic::set_hook(Box::new(|_| {}));
    }
    if args[2] == "--replay" {
        let Some(path) = args.get(3) else {
            eprintln!("--replay needs a file");
            std::process::exit(2);
        };
        let text = std::fs::read_to_string(path).unwrap_or_else(|e| {
            eprintln!("cannot read {path}: {e}");
            std::process::exit(2);
        });
        let v: serde_json::Value = serde_json::from_str(&text).unwrap_or_else(|e| {
            eprintln!("bad replay file: {e}");
            std::process::exit(2);
        });
        let Some((_, rf)) = props::lookup(&id) else {
            eprintln!("unknown property {id}");
            std::process::exit(2);
        };
        match Some(rf(&v["replay"])) {
            None => {
                eprintln!("no replay support for {id}");
                std::process::exit(2);
            }
            Some(Ok(())) => {
                println!("replay of {path}: property held on this execution");
                std::process::exit(0);
            }
            Some(Err(msg)) => {
                if msg.starts_with("MACHINERY") || msg.starts_with("unknown exploration") {
                    eprintln!("{msg}");
                    std::process::exit(2);
                }
                println!("replay of {path}: {msg}");
                println!("VIOLATION property={id} replay={path}");
                std::process::exit(1);
            }
        }
    }
    let tier = match args[2].as_str() {
        "quick" => Tier::Quick,
        "thorough" => Tier::Thorough,
        other => {
            eprintln!("unknown tier {other}");
            std::process::exit(2);
        }
    };
    // Input sweeps over untrusted bytes run in a child process with an address
    // space limit, so that an abort (allocation failure, stack overflow,
    // double panic) in the code under test is caught as a violation instead of
    // killing the checker.
    const CHILD_IDS: [&str; 3] = ["C09", "C15", "C18"];
    if CHILD_IDS.contains(&id.as_str()) && std::env::var("VERIF_CHILD").is_err() {
        use std::os::unix::process::CommandExt;
        let exe = std::env::current_exe().expect("current_exe");
        let mut cmd = std::process::Command::new(exe);
        cmd.args(&args[1..]).env("VERIF_CHILD", "1");
        unsafe {
            cmd.pre_exec(|| {
                let lim = libc::rlimit {
                    rlim_cur: 6 << 30,
                    rlim_max: 6 << 30,
                };
                libc::setrlimit(libc::RLIMIT_AS, &lim);
                Ok(())
            });
        }
        let t0 = Instant::now();
        let _ = std::fs::remove_file(srtla_verif::util::progress_path(&id));
        let status = cmd.status().expect("spawn child");
        match status.code() {
            Some(c @ (0 | 1 | 2)) => std::process::exit(c),
            _ => {
                let marker = std::fs::read_to_string(srtla_verif::util::progress_path(&id))
                    .unwrap_or_else(|_| "(unknown)".into());
                let mut rep = srtla_verif::evidence::Report::new();
                rep.states = 1;
                rep.transitions = 1;
                rep.exhaustive = false;
                rep.violations.push(srtla_verif::evidence::Violation {
                    key: "abort".into(),
                    message: format!(
                        "the sweep process died abnormally ({status}) while exploring: {marker}"
                    ),
                    replay: serde_json::json!({"class": marker}),
                });
                rep.count_violation("abort", 1);
                std::process::exit(finish(&id, tier, t0, rep));
            }
        }
    }
    let Some((f, rf)) = props::lookup(&id) else {
        eprintln!("unknown property {id}");
        std::process::exit(2);
    };
    let t0 = Instant::now();
    let rep = match std::panic::catch_unwind(|| f(tier)) {
        Ok(r) => r,
        Err(p) => {
            let msg = p
                .downcast_ref::<String>()
                .cloned()
                .or_else(|| p.downcast_ref::<&str>().map(|s| s.to_string()))
                .unwrap_or_else(|| "panic".into());
            eprintln!("MACHINERY: check {id} panicked: {msg}");
            std::process::exit(2);
        }
    };
    // Last line of defence against an alarm caused by the environment rather than by the code: every
    // kept counterexample is re-executed once more from its artefact, in this quiet moment after the
    // exploration. One that does not fail again is a machinery error, not a verdict.
    let mut rep = rep;
    let mut kept = Vec::new();
    for v in std::mem::take(&mut rep.violations) {
        let again = std::panic::catch_unwind(std::panic::AssertUnwindSafe(|| rf(&v.replay)));
        match again {
            Ok(Ok(())) => {
                rep.violation_counts.remove(&v.key);
                rep.machinery_errors.push(format!("a counterexample for [{}] did not fail again when re-executed from its artefact: {}", v.key, v.message.chars().take(300).collect::<String>()));
            }
            Ok(Err(m)) if m.starts_with("MACHINERY") || m.starts_with("unknown exploration") => {
                // no replay support for this artefact shape: keep the verdict of the exploration (which confirmed it itself)
                kept.push(v);
            }
            _ => kept.push(v),
        }
    }
    rep.violations = kept;
    std::process::exit(finish(&id, tier, t0, rep));
}
