//! `mc <ID> quick|thorough` runs one check; `mc <ID> --replay <file>` re-executes
//! a recorded counterexample on the real code without the explorer.

use std::time::Instant;

use srtla_verif::evidence::{Tier, finish};
use srtla_verif::props;

fn main() {
    let args: Vec<String> = std::env::args().collect();
    if args.len() < 3 {
        eprintln!("usage: mc <ID> quick|thorough | mc <ID> --replay <file>");
        std::process::exit(2);
    }
    let id = args[1].to_uppercase();
    // keep the real code's logging quiet and panics short
    std::panic::set_hook(Box::new(|_| {}));
    if args[2] == "--replay" {
        let Some(path) = args.get(3) else {
            eprintln!("--replay needs a file");
            std::process::exit(2);
        };
        let text = std::fs::read_to_string(path).unwrap_or_else(|e| {
            eprintln!("cannot read {path}: {e}");
            std::process::exit(2);
        });
        let v: serde_json::Value = serde_json::from_str(&text).unwrap_or_else(|e| {
            eprintln!("bad replay file: {e}");
            std::process::exit(2);
        });
        match props::replay(&id, &v["replay"]) {
            None => {
                eprintln!("no replay support for {id}");
                std::process::exit(2);
            }
            Some(Ok(())) => {
                println!("replay of {path}: property held on this execution");
                std::process::exit(0);
            }
            Some(Err(msg)) => {
                println!("replay of {path}: {msg}");
                println!("VIOLATION property={id} replay={path}");
                std::process::exit(1);
            }
        }
    }
    let tier = match args[2].as_str() {
        "quick" => Tier::Quick,
        "thorough" => Tier::Thorough,
        other => {
            eprintln!("unknown tier {other}");
            std::process::exit(2);
        }
    };
    let Some(f) = props::lookup(&id) else {
        eprintln!("unknown property {id}");
        std::process::exit(2);
    };
    let t0 = Instant::now();
    let rep = match std::panic::catch_unwind(|| f(tier)) {
        Ok(r) => r,
        Err(p) => {
            let msg = p
                .downcast_ref::<String>()
                .cloned()
                .or_else(|| p.downcast_ref::<&str>().map(|s| s.to_string()))
                .unwrap_or_else(|| "panic".into());
            eprintln!("MACHINERY: check {id} panicked: {msg}");
            std::process::exit(2);
        }
    };
    std::process::exit(finish(&id, tier, t0, rep));
}
