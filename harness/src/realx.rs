//! realx — exhaustive fault-schedule exploration of the *real* event loop.
//!
//! Every explored execution starts a fresh `run_sender_with_config` under the
//! controlled scheduler of `e2e.rs` and drives it through a closed loop of
//! one-second macro steps (a fake receiver that answers exactly what it saw, a
//! client that streams, ACKs) with fault / repair events placed by the
//! enumerator. The monitor only uses what a bystander can see: the datagrams on
//! the wire, the datagrams the client receives, and the `SharedStats` snapshot
//! the loop publishes once per housekeeping pass — plus its own clocks.
//!
//! The state of the real loop cannot be cloned, so exploration is by
//! re-execution: every path of the plan is run from scratch (a 45 s virtual
//! run costs a few milliseconds).

use std::collections::{BTreeMap, BTreeSet};
use std::sync::Arc;
use std::sync::atomic::{AtomicU64, Ordering};
use std::time::{Duration, Instant};

use serde_json::{Value, json};
use srtla_core::mode::SchedulingMode;
use srtla_send::config::DynamicConfig;

use crate::e2e::{Rig, StepOut, with_real_loop};
use crate::engine::{Fail, hash_of, par_map};
use crate::evidence::{Report, Violation};
use crate::util::{T0, srt_data};
use crate::world::{FakeReceiver, FaultBinder, link_ip, pkt_type};

#[derive(Clone, Copy, Debug, PartialEq, Eq, Hash)]
pub enum Mode {
    Ok,
    /// nothing is answered, nothing acknowledged
    BlackHole,
    /// handshake replies are lost; keepalive echoes and ACKs get through
    HandshakeLost,
    /// the path delivers until the link is registered again, then goes dark
    Flap,
    /// handshake replies and keepalive echoes get through, stream data is never acknowledged
    /// (the link stays connected but carries nothing useful)
    DataHole,
}

#[derive(Clone, Copy, Debug, PartialEq)]
pub enum Ev {
    /// one second with client traffic
    Sec,
    /// one second without
    SecIdle,
    Fault(usize, Mode),
    Repair(usize),
    BindFails(usize),
    BindOk(usize),
    /// the receiver loses the group
    Forget,
    /// the receiver sends a tagged, non-internal datagram of the given length on the link
    Relay(usize, usize),
    /// a burst of 40 client datagrams 1 ms apart (crosses the 32-datagram batch, several flush ticks)
    Burst,
    /// a client datagram of exactly `len` bytes
    ClientLen(usize),
    /// a control client changes the liveness timeout at run time
    SetTimeout(u64),
    /// saturating ingress for 2.6 virtual seconds: the sender's listener socket is never empty; the housekeeping
    /// passes that fall into it must still run (a keepalive on every live link)
    Flood,
    /// one second of a 3 Mbit/s stream (285 datagrams of 1316 bytes, acknowledged)
    SecHeavy,
    /// thirty client datagrams 10 ms apart (a stream slower than the flush tick, faster than nothing)
    Trickle,
    /// the receiver sends five datagrams back to back on the link (one recvmmsg batch for its reader task):
    /// 16 bytes, an empty one, 2 bytes, 1316 bytes, 188 bytes
    RelayBurst(usize),
    /// the link is black-holed for `secs` idle seconds and then repaired (long enough: it is re-opened)
    Outage(usize, u64),
    /// every link is black-holed for `secs` idle seconds, then all are repaired and idle seconds pass until one of
    /// them is registered again (so that the next event finds a freshly re-registered link)
    OutageAll(u64),
    /// rewrite the ips file with the given content and send SIGHUP (applied by the next housekeeping pass)
    Reload(&'static str),
    /// a subscriber of the given topic with a one-line channel that never reads
    FrozenSubscriber(&'static str),
    /// what the priority listener task does when a keyframe hint arrives: publish on priority.window
    /// (from a task of its own, never from the loop)
    PublishWindow,
    /// run-time switch of the scheduling mode (true = classic)
    Mode(bool),
    /// run-time switch of the stall guard
    Guard(bool),
    /// a heavy second without intermediate ACKs in which the receiver reports the first `count` datagrams link `l`
    /// carried as lost (SRT NAKs, relayed to the client like any receiver datagram), then acknowledges the rest
    SecHeavyNak(usize, u32),
}

/// universe of uplink addresses (127.0.0.2 ...) a reload scenario may list
pub const MAX_ADDR: usize = 5;

pub struct LoopModel {
    pub n: usize,
    pub timeout: u64,
    pub classic: bool,
    pub events: Vec<Ev>,
    pub name: String,
    /// SIGHUP is process-wide: scenarios that send it run one at a time
    pub single_thread: bool,
    /// also drive a mirrored world with the same stimuli and compare after every step
    pub lockstep: bool,
    /// link 1 is black-holed from the very start (it never registers until repaired)
    pub start_fault: bool,
}

impl LoopModel {
    pub fn new(n: usize, timeout: u64, classic: bool, level: u8) -> Self {
        let mut events = vec![Ev::Sec, Ev::SecIdle];
        match level {
            // streaming / relay alphabet
            0 => {
                events.extend([Ev::Burst, Ev::Relay(0, 16), Ev::Relay(1, 1316), Ev::Relay(0, 1500), Ev::ClientLen(1), Ev::ClientLen(1500), Ev::Fault(1, Mode::BlackHole), Ev::Repair(1), Ev::RelayBurst(1), Ev::Outage(1, 7), Ev::Trickle, Ev::OutageAll(8)]);
            }
            // fault alphabet
            1 => {
                for i in 0..n.min(2) {
                    events.push(Ev::Fault(i, Mode::BlackHole));
                    events.push(Ev::Repair(i));
                    events.push(Ev::Fault(i, Mode::HandshakeLost));
                    events.push(Ev::Fault(i, Mode::Flap));
                }
                events.push(Ev::Forget);
                events.push(Ev::SetTimeout(15000));
                events.push(Ev::SetTimeout(2000));
            }
            // bind faults
            2 => {
                events.extend([Ev::Fault(1, Mode::BlackHole), Ev::Repair(1), Ev::BindFails(1), Ev::BindOk(1), Ev::Fault(1, Mode::Flap)]);
            }
            // long outages
            3 => {
                events = vec![Ev::SecIdle, Ev::Sec, Ev::Fault(1, Mode::BlackHole), Ev::Repair(1), Ev::Fault(1, Mode::Flap)];
            }
            // reloads by SIGHUP (process-wide: explored on one thread)
            4 => {
                events.extend([
                    Ev::Reload("127.0.0.2\n127.0.0.3\n"),
                    Ev::Reload("127.0.0.2\n"),
                    Ev::Reload("127.0.0.3\n127.0.0.4\n"),
                    Ev::Reload("127.0.0.2\n127.0.0.3\n127.0.0.4\n"),
                    Ev::Reload("127.0.0.5\n127.0.0.4\n"),
                    Ev::Reload(""),
                    Ev::Reload("garbage\n\n"),
                    Ev::Reload("127.0.0.3\nnonsense\n127.0.0.2\n127.0.0.3\n"),
                    Ev::Fault(0, Mode::BlackHole),
                ]);
            }
            // a heavy stream, stops, and reloads that keep the list (SIGHUP: one at a time)
            6 => {
                events = vec![Ev::SecHeavy, Ev::SecIdle, Ev::Reload("127.0.0.2\n127.0.0.3\n"), Ev::Sec];
            }
            // a link that stays connected but delivers nothing, under a heavy stream, with reloads that keep the list
            7 => {
                events = vec![Ev::SecHeavy, Ev::Fault(1, Mode::DataHole), Ev::Reload("127.0.0.2\n127.0.0.3\n"), Ev::Repair(1), Ev::SecIdle];
            }
            // saturating ingress
            8 => {
                events = vec![Ev::Sec, Ev::SecIdle, Ev::Flood];
            }
            // run-time mode switches around a link that loses its share
            9 => {
                events = vec![Ev::SecHeavy, Ev::Fault(1, Mode::DataHole), Ev::Repair(1), Ev::Mode(true), Ev::Mode(false), Ev::SecHeavyNak(1, 100), Ev::SecIdle, Ev::Guard(false), Ev::Guard(true)];
            }
            // a control client that never reads its subscription
            _ => {
                events.extend([Ev::FrozenSubscriber("stats"), Ev::FrozenSubscriber("priority.window"), Ev::PublishWindow, Ev::Fault(1, Mode::BlackHole), Ev::Repair(1)]);
            }
        }
        let name = format!(
            "real loop links={n} timeout={timeout} mode={} alphabet={}",
            if classic { "classic" } else { "enhanced" },
            ["streaming", "faults", "bind-faults", "long-outage", "reloads", "frozen-subscribers", "heavy-stream", "data-hole", "flood", "mode-switches"][if level >= 6 { level.min(9) as usize } else { level.min(5) as usize }]
        );
        Self { n, timeout, classic, events, name, single_thread: level == 4 || level == 6 || level == 7, lockstep: false, start_fault: false }
    }
    pub fn with_start_fault(mut self) -> Self {
        self.start_fault = true;
        self.name = format!("{} link-1-dead-from-the-start", self.name);
        self
    }
    pub fn with_lockstep(mut self) -> Self {
        self.lockstep = true;
        self.name = format!("{} lockstep", self.name);
        self
    }
    pub fn event_name(&self, e: usize) -> String {
        format!("{:?}", self.events[e])
    }
    pub fn index_of(&self, ev: Ev) -> usize {
        self.events.iter().position(|e| *e == ev).expect("event in alphabet")
    }
}

#[derive(Clone, Debug)]
struct LinkMon {
    mode: Mode,
    rec_known: bool,
    /// current source address of the link's socket as seen by the receiver
    src_port: Option<u16>,
    /// own clock: when the driver last handed the link a datagram that must refresh its receive stamp
    last_live_delivery: u64,
    last_delivery: u64,
    /// virtual times at which the link's socket was seen to be re-created
    last_socket_change: u64,
    socket_changes: u32,
    /// REG3 was delivered to the link at least once
    established: bool,
    bind_fail: bool,
    had_bind_fault: bool,
    /// path and receiver fine continuously since
    ok_since: Option<u64>,
    /// keepalive bookkeeping
    ka_misses: u32,
    /// the stats said connected && !timed_out at the previous pass
    live_prev: bool,
    connected_prev: bool,
    /// wire arrival order of client sequence numbers (first copies)
    carried: Vec<u32>,
    /// the address is in the sender's link set (as far as the applied ips lists say)
    present: bool,
    /// REG3 was delivered on the link's current socket (registered, as far as the receiver's answers say)
    reg3_on_this_socket: bool,
    /// CC target the previous pass published, and whether it has left its initial value before
    cc_prev: Option<u64>,
    cc_seeded: bool,
    /// consecutive passes that reported the link weak for low share / no traffic
    share_weak_run: u32,
    /// the verdict published by the previous pass
    weak_prev: bool,
    /// not-weak passes still owed after a run of 15
    probation_owed: u32,
}

struct Run<'a> {
    m: &'a LoopModel,
    rig: Rig,
    rec: FakeReceiver,
    binder: Arc<FaultBinder>,
    links: Vec<LinkMon>,
    next_hk: u64,
    /// client datagrams may still sit in a batch queue
    dirty: bool,
    next_seq: u32,
    /// every datagram the client sent: payload -> (send time, surely-usable link existed)
    sent: BTreeMap<Vec<u8>, (u64, bool)>,
    /// copies seen on the wire per payload
    copies: BTreeMap<Vec<u8>, Vec<(usize, u64)>>,
    /// datagrams the receiver sent that must be relayed / must not be
    relay_expected: Vec<Vec<u8>>,
    relay_seen: BTreeMap<Vec<u8>, u32>,
    client_known: bool,
    relay_tag: u32,
    passes: u64,
    cov: Cov,
    /// a reload was signalled and is applied by the next housekeeping pass: the link set it must produce
    /// (None inside: the file must be refused)
    pending_reload: Option<Option<Vec<usize>>>,
    /// the pass that applied a reload has run; the statistics of the *next* pass must show this link set
    /// (the loop updates the statistics before it applies the queued change)
    reload_to_verify: Option<(bool, Vec<usize>, Vec<usize>)>,
    /// the liveness timeout currently configured (a control client may change it at run time)
    timeout: u64,
    /// when it was last changed (teardown clauses allow either value for one timeout's length afterwards)
    timeout_prev: u64,
    timeout_changed_at: u64,
    /// client sequence numbers below this one have been acknowledged by the receiver
    acked_up_to: u32,
    /// source addresses of uplinks a reload removed (their sockets must be gone one pass later)
    removed_sockets: Vec<std::net::SocketAddr>,
    /// receivers of frozen subscribers (kept so the channels stay open and full)
    frozen: Vec<tokio::sync::mpsc::Receiver<String>>,
    /// the mirrored world driven in lock-step (conformance runs only)
    twin: Option<Twin>,
}

#[derive(Default, Clone, Debug)]
pub struct Cov {
    pub reloads_applied: u64,
    pub reloads_refused: u64,
    pub frozen_subscribers: u64,
    pub socket_recreations: u64,
    pub rejoins: u64,
    pub forwarded: u64,
    pub relayed: u64,
    pub keepalives: u64,
    pub flaps: u64,
}

fn fresh_link(now: u64) -> LinkMon {
    LinkMon {
        mode: Mode::Ok,
        rec_known: false,
        src_port: None,
        last_live_delivery: now,
        last_delivery: now,
        last_socket_change: now,
        socket_changes: 0,
        established: false,
        bind_fail: false,
        had_bind_fault: false,
        ok_since: Some(now),
        ka_misses: 0,
        live_prev: false,
        connected_prev: false,
        carried: Vec::new(),
        present: false,
        reg3_on_this_socket: false,
        cc_prev: None,
        cc_seeded: false,
        share_weak_run: 0,
        weak_prev: false,
        probation_owed: 0,
    }
}

fn handshake_or_keepalive(b: &[u8]) -> bool {
    matches!(pkt_type(b), Some(0x9200) | Some(0x9201) | Some(0x9000))
}

fn stamps_liveness(b: &[u8]) -> bool {
    b.len() >= 2 && !matches!(pkt_type(b), Some(0x9200) | Some(0x9201) | Some(0x9210) | Some(0x9211))
}

impl<'a> Run<'a> {
    fn now(&self) -> u64 {
        self.rig.vt
    }

    /// Account for everything a step put on the wire / handed to the client.
    fn absorb(&mut self, o: &StepOut, hk_pass: bool) -> Result<(), Fail> {
        let now = self.now();
        for (l, b) in &o.wire {
            let l = *l;
            if l >= MAX_ADDR || !self.links[l].present {
                return Err(Fail::new("real:datagram-from-unknown-source", format!("a datagram arrived from source 127.0.0.{} at +{now} ms", l + 2)));
            }
            // socket identity
            let port = self.rig.link_src.get(&l).map(|a| a.port());
            if self.links[l].src_port.is_some() && self.links[l].src_port != port {
                self.socket_recreated(l)?;
            }
            self.links[l].src_port = port;
            if handshake_or_keepalive(b) {
                if pkt_type(b) == Some(0x9000) {
                    self.cov.keepalives += 1;
                    self.links[l].ka_misses = 0;
                    if b.len() != 38 {
                        return Err(Fail::new("real:keepalive-not-38-bytes", format!("link {l} at +{now} ms: keepalive of {} bytes", b.len())));
                    }
                    let ts = u64::from_be_bytes(b[2..10].try_into().unwrap());
                    if ts != T0 + now {
                        return Err(Fail::new("real:keepalive-timestamp", format!("link {l}: keepalive stamped {ts}, sent at {}", T0 + now)));
                    }
                    if b[10..14] != [0xc0, 0x1f, 0x00, 0x01] {
                        return Err(Fail::new("real:keepalive-magic-or-version", format!("link {l}: {:02x?}", &b[10..14])));
                    }
                    if !hk_pass {
                        return Err(Fail::new("real:keepalive-outside-housekeeping", format!("link {l} at +{now} ms")));
                    }
                }
                continue;
            }
            // stream data: must be something the client sent, unchanged
            let Some((_, _)) = self.sent.get(b) else {
                return Err(Fail::new(
                    "real:unknown-or-modified-datagram-on-uplink",
                    format!("link {l} at +{now} ms carried {} bytes {:02x?} which the client never sent in that form", b.len(), &b[..b.len().min(16)]),
                ));
            };
            self.cov.forwarded += 1;
            let e = self.copies.entry(b.clone()).or_default();
            let first_on_link = !e.iter().any(|(x, _)| *x == l);
            e.push((l, now));
            if e.len() > 1 + MAX_ADDR {
                return Err(Fail::new("real:too-many-copies", format!("a client datagram was transmitted {} times", e.len())));
            }
            if first_on_link && b.len() >= 12 && b[0] & 0x80 == 0 {
                let seq = u32::from_be_bytes([b[0], b[1], b[2], b[3]]);
                if let Some(last) = self.links[l].carried.last() {
                    if seq < *last && e.len() == 1 {
                        return Err(Fail::new(
                            "real:per-link-order",
                            format!("link {l} transmitted client datagram #{seq} after #{last} (the client sent them in increasing order)"),
                        ));
                    }
                }
                if e.len() == 1 {
                    self.links[l].carried.push(seq);
                }
            }
        }
        for b in &o.client {
            let Some(pos) = self.relay_expected.iter().position(|x| x == b) else {
                return Err(Fail::new(
                    "real:client-received-unexpected-datagram",
                    format!("at +{now} ms the client received {} bytes {:02x?}: not a datagram the receiver sent for it (internal, modified or invented)", b.len(), &b[..b.len().min(16)]),
                ));
            };
            let _ = pos;
            self.cov.relayed += 1;
            *self.relay_seen.entry(b.clone()).or_insert(0) += 1;
        }
        Ok(())
    }

    fn socket_recreated(&mut self, l: usize) -> Result<(), Fail> {
        let now = self.now();
        let timeout = self.timeout;
        self.cov.socket_recreations += 1;
        // a change of the configured timeout is read by the next pass, and a teardown is only ever observed at a
        // pass: the value configured now is the one that pass enforced
        let k = &self.links[l];
        if k.established {
            // a teardown is the end of a registration: a link that was already torn down and has not been answered
            // REG3 on its present socket is being retried (judged by the spacing clause below), not torn down again -
            // its last delivery may well be younger than a timeout that was raised in the meantime
            if k.reg3_on_this_socket && now.saturating_sub(k.last_live_delivery) < timeout {
                return Err(Fail::new(
                    "real:torn-down-before-the-configured-timeout",
                    format!(
                        "link {l}: its socket was re-created at +{now} ms although the receiver handed it a datagram {} ms ago (configured timeout {timeout}, fault mode {:?})",
                        now - k.last_live_delivery,
                        k.mode
                    ),
                ));
            }
            if k.socket_changes > 0 && now - k.last_socket_change < 5000 {
                return Err(Fail::new(
                    "real:reconnect-attempts-too-close",
                    format!("link {l}: sockets re-created {} ms apart (minimum 5000 after establishment)", now - k.last_socket_change),
                ));
            }
        }
        let k = &mut self.links[l];
        k.last_socket_change = now;
        k.socket_changes += 1;
        k.rec_known = false;
        k.reg3_on_this_socket = false;
        Ok(())
    }

    /// Advance the virtual clock to `target`, never letting two timers fall due in one step while
    /// client data may be queued.
    async fn to(&mut self, target: u64) -> Result<(), Fail> {
        while self.rig.vt < target {
            let vt = self.rig.vt;
            let next_flush = (vt / 15 + 1) * 15;
            let mut stop = target.min(self.next_hk);
            if self.dirty {
                stop = stop.min(next_flush);
            } else {
                // idle: skipped flush ticks collapse into one; let it fire alone, just before `stop`
                let g = (stop / 15) * 15;
                if g > vt && g < stop {
                    stop = g;
                }
            }
            let hk = stop == self.next_hk;
            let o = self.rig.advance(stop - vt).await.map_err(|e| Fail::new("MACHINERY", e))?;
            if let Some(t) = self.twin.as_mut() {
                // the same timer, at the same instant, in the mirrored world
                let two = if hk {
                    Some(t.call(TwinCmd::Housekeeping { at: stop })?)
                } else if stop % 15 == 0 {
                    Some(t.call(TwinCmd::Flush { at: stop })?)
                } else {
                    None
                };
                if let Some(two) = two {
                    compare(if hk { "housekeeping pass" } else { "flush tick" }, stop, &o, &two, MAX_ADDR)?;
                }
            }
            if hk {
                // The housekeeping interval (period 1000 ms, MissedTickBehavior::Delay) stays on the 1000 ms grid
                // unless a tick is more than 5 ms late. On that grid it would fall due together with the 15 ms
                // flush timer every 3 s, and tokio's select! picks among ready branches at random. So the second
                // tick is taken 6 ms late (no flush deadline lies in (1995, 2006]); from then on housekeeping runs
                // at 2006 + 1000k, which is never a multiple of 15.
                self.next_hk += if self.passes == 0 { 1006 } else { 1000 };
                self.passes += 1;
            }
            if self.dirty && stop == next_flush {
                // a flush tick that carried nothing: the queues are empty
                if !o.wire.iter().any(|(_, b)| !handshake_or_keepalive(b)) {
                    self.dirty = false;
                }
            }
            self.absorb(&o, hk)?;
            if hk {
                self.after_housekeeping(&o).await?;
            }
        }
        Ok(())
    }

    /// The clauses judged once per housekeeping pass, then the receiver's answers.
    async fn after_housekeeping(&mut self, o: &StepOut) -> Result<(), Fail> {
        let now = self.now();
        let n = MAX_ADDR;
        let timeout = self.timeout;
        let snap = self.rig.stats.get();
        // stats rows by link
        let mut row: Vec<Option<srtla_send::stats::LinkStats>> = vec![None; n];
        let mut listed: Vec<usize> = Vec::new();
        for ls in snap.links.iter() {
            if let std::net::IpAddr::V4(v) = ls.ip {
                let i = v.octets()[3] as usize;
                if i >= 2 && i - 2 < n {
                    row[i - 2] = Some(ls.clone());
                    listed.push(i - 2);
                }
            }
        }
        // ---- the statistics of the pass after the one that applied a reload show the new link set
        if let Some((accepted, want_set, before)) = self.reload_to_verify.take() {
            // "together with their I/O handle": the removed uplink's socket is closed, so its address can be bound
            for a in std::mem::take(&mut self.removed_sockets) {
                if let Err(e) = std::net::UdpSocket::bind(a) {
                    return Err(Fail::new(
                        "real:reload-removed-uplink-keeps-its-socket",
                        format!("uplink {a} was removed by the reload, but one pass later its UDP socket is still open (binding the address fails: {e})"),
                    ));
                }
            }
            let mut a = listed.clone();
            a.sort_unstable();
            if a != want_set {
                return Err(Fail::new(
                    if accepted { "real:reload-link-set-differs-from-list" } else { "real:refused-reload-changed-the-link-set" },
                    format!(
                        "one pass after the reload was due the statistics list uplinks {:?}; the file {} (links before: {:?})",
                        listed.iter().map(|l| format!("127.0.0.{}", l + 2)).collect::<Vec<_>>(),
                        if accepted { format!("lists {:?}", want_set.iter().map(|l| format!("127.0.0.{}", l + 2)).collect::<Vec<_>>()) } else { "must be refused".to_string() },
                        before.iter().map(|l| format!("127.0.0.{}", l + 2)).collect::<Vec<_>>()
                    ),
                ));
            }
            for l in 0..n {
                // a survivor: connected stays connected through the reload
                if before.contains(&l) && want_set.contains(&l) {
                    if let Some(st) = &row[l] {
                        if self.links[l].connected_prev && !st.connected && now.saturating_sub(self.links[l].last_live_delivery) < timeout {
                            return Err(Fail::new(
                                "real:reload-disturbed-a-surviving-uplink",
                                format!("uplink 127.0.0.{} is still listed, was connected before the reload and heard from {} ms ago, and is reported disconnected after it", l + 2, now - self.links[l].last_live_delivery),
                            ));
                        }
                    }
                }
            }
        }
        // ---- a reload signalled since the last pass is applied by this one (after it updated the statistics)
        let mut membership_changed = vec![false; n];
        if let Some(want) = self.pending_reload.take() {
            let before: Vec<usize> = (0..n).filter(|l| self.links[*l].present).collect();
            let mut b: Vec<usize> = match &want {
                Some(w) => {
                    self.cov.reloads_applied += 1;
                    w.clone()
                }
                None => {
                    self.cov.reloads_refused += 1;
                    before.clone()
                }
            };
            b.sort_unstable();
            b.dedup();
            for l in 0..n {
                let now_present = b.contains(&l);
                if now_present && !self.links[l].present {
                    let mode = self.links[l].mode;
                    self.links[l] = fresh_link(now);
                    self.links[l].mode = mode;
                    self.links[l].present = true;
                    membership_changed[l] = true;
                } else if !now_present && self.links[l].present {
                    self.links[l].present = false;
                    self.links[l].src_port = None;
                    if let Some(a) = self.rig.link_src.remove(&l) {
                        self.removed_sockets.push(a);
                    }
                    membership_changed[l] = true;
                }
            }
            self.reload_to_verify = Some((want.is_some(), b, before));
        }
        for l in 0..n {
            if !self.links[l].present || membership_changed[l] {
                continue;
            }
            let Some(st) = &row[l] else {
                return Err(Fail::new("real:link-missing-from-stats", format!("link {l} is not in the statistics snapshot at +{now} ms")));
            };
            if st.connected && !(1000..=60000).contains(&st.window) {
                return Err(Fail::new("real:window-out-of-range", format!("link {l}: window {} at +{now} ms", st.window)));
            }
            // CC target as the loop publishes it: one controller step per pass, judged against this pass's measurement
            {
                let target = st.cc_target_bps;
                let measured = st.bitrate_bytes_per_sec as u64 * 8;
                if let Some(prev) = self.links[l].cc_prev {
                    if target > prev && prev > 0 {
                        if self.links[l].cc_seeded {
                            if target as f64 > prev as f64 * 1.06 + 2.0 {
                                return Err(Fail::new(
                                    "real:cc-target-grew-more-than-6-percent-in-one-pass",
                                    format!("link {l} at +{now} ms: published CC target {prev} -> {target} (+{:.2} %) in one housekeeping pass (measured {measured} bit/s, state {} / {})", (target as f64 / prev as f64 - 1.0) * 100.0, st.cc_state, st.cc_climb_mode),
                                ));
                            }
                            if target > 2 * measured + 16 {
                                return Err(Fail::new(
                                    "real:cc-target-grew-beyond-twice-the-measured-rate",
                                    format!("link {l} at +{now} ms: published CC target grew {prev} -> {target} in a pass that measured {measured} bit/s (state {} / {})", st.cc_state, st.cc_climb_mode),
                                ));
                            }
                        }
                        self.links[l].cc_seeded = true;
                    }
                }
                if std::env::var("VERIF_TRACE").is_ok() {
                    eprintln!("TRACE cc link {l} +{now}: target {target} measured {measured} state {} / {}", st.cc_state, st.cc_climb_mode);
                }
                self.links[l].cc_prev = Some(target);
            }
            // weak-link verdicts as the loop publishes them: at most 15 consecutive share-weak verdicts, then three
            // not-weak ones
            {
                let share_weak = st.weak && (st.weak_reason == "low_share" || st.weak_reason == "no_traffic");
                if std::env::var("VERIF_TRACE").is_ok() && l == 1 {
                    eprintln!("TRACE weak link {l} +{now}: weak {} reason {} share {} thr {} run {} | windows {:?} in-flight {:?} naks {:?}", st.weak, st.weak_reason, st.weak_share_permille, st.weak_threshold_permille, self.links[l].share_weak_run, (0..2).filter_map(|j| row[j].as_ref().map(|x| x.window)).collect::<Vec<_>>(), (0..2).filter_map(|j| row[j].as_ref().map(|x| x.in_flight)).collect::<Vec<_>>(), (0..2).filter_map(|j| row[j].as_ref().map(|x| x.nak_count)).collect::<Vec<_>>());
                }
                // entering weak for low share requires a share below a quarter of fair share: judged on the verdicts the
                // loop publishes, with the share recomputed from the bitrates of the same snapshot
                if st.weak && st.weak_reason == "low_share" && !self.links[l].weak_prev {
                    let conn: Vec<u64> = (0..n).filter_map(|j| row[j].as_ref()).filter(|x| x.connected).map(|x| x.bitrate_bytes_per_sec as u64).collect();
                    let total: u64 = conn.iter().sum();
                    if total > 0 && !conn.is_empty() {
                        let share = st.bitrate_bytes_per_sec as u64 * 1000 / total;
                        let quarter = 250 / conn.len() as u64;
                        if share > quarter + 15 {
                            return Err(Fail::new(
                                "real:weak-entered-above-a-quarter-of-fair-share",
                                format!("link {l} at +{now} ms: reported weak for low share although the previous pass reported it not weak and its share of the measured rate is {share} permille ({} connected links: a quarter of fair share is {quarter} permille; the classifier reports share {} against threshold {})", conn.len(), st.weak_share_permille, st.weak_threshold_permille),
                            ));
                        }
                    }
                }
                self.links[l].weak_prev = st.weak;
                let k = &mut self.links[l];
                if k.probation_owed > 0 {
                    if st.weak && st.weak_reason != "bypassed" {
                        if share_weak {
                            return Err(Fail::new(
                                "real:no-probation-after-15-share-weak-verdicts",
                                format!("link {l} at +{now} ms: reported weak ({}) although {} not-weak verdicts are still owed after 15 consecutive share-weak ones", st.weak_reason, k.probation_owed),
                            ));
                        }
                    }
                    k.probation_owed -= 1;
                    k.share_weak_run = 0;
                } else if share_weak {
                    k.share_weak_run += 1;
                    if k.share_weak_run > 15 {
                        return Err(Fail::new(
                            "real:no-probation-after-15-share-weak-verdicts",
                            format!("link {l} at +{now} ms: {} consecutive passes reported it weak for {} (at most 15, then three not-weak verdicts)", k.share_weak_run, st.weak_reason),
                        ));
                    }
                    if k.share_weak_run == 15 {
                        k.probation_owed = 3;
                    }
                } else {
                    k.share_weak_run = 0;
                }
            }
            // keepalive cadence
            let live = st.connected && !st.timed_out;
            let got_ka = o.wire.iter().any(|(x, b)| *x == l && pkt_type(b) == Some(0x9000));
            if live && self.links[l].live_prev {
                if !got_ka {
                    self.links[l].ka_misses += 1;
                    if self.links[l].ka_misses >= 2 {
                        return Err(Fail::new(
                            if self.frozen.is_empty() { "real:keepalive-gap-over-two-periods" } else { "real:housekeeping-pass-stalled-with-a-frozen-subscriber" },
                            format!("link {l}: connected and not timed out over the last passes, yet two consecutive housekeeping passes (now +{now} ms) sent no keepalive"),
                        ));
                    }
                }
            } else {
                self.links[l].ka_misses = 0;
            }
            // rejoin: clean accounting at the first pass that reports the link connected again
            if st.connected && !self.links[l].connected_prev && self.links[l].established {
                self.cov.rejoins += 1;
                if self.links[l].socket_changes > 0 && (st.window < 20000 || st.window > 20000 + 40 * 30 || st.in_flight > 40) {
                    return Err(Fail::new(
                        "real:rejoin-not-clean",
                        format!("link {l} reported connected again at +{now} ms with window {} and in-flight {}", st.window, st.in_flight),
                    ));
                }
            }
            // detection and retry
            let k = &self.links[l];
            let det_timeout = timeout;
            if k.established && st.connected && now.saturating_sub(k.last_delivery) >= det_timeout + 6000 && now - k.last_socket_change >= 6000 {
                return Err(Fail::new(
                    "real:silent-link-not-torn-down",
                    format!(
                        "link {l}: nothing was delivered to it for {} ms (own clock, timeout {timeout}), yet the statistics still report it connected and its socket was not re-created",
                        now - k.last_delivery
                    ),
                ));
            }
            if k.established && !st.connected && !k.bind_fail && now.saturating_sub(k.last_delivery) >= timeout && now - k.last_socket_change > 121_000 {
                return Err(Fail::new("real:retries-stopped", format!("link {l}: down, no socket re-creation for {} ms", now - k.last_socket_change)));
            }
            // bounded rejoin
            let healthy = k.mode == Mode::Ok && !k.bind_fail && self.rec.group.is_some();
            if !healthy {
                self.links[l].ok_since = None;
            } else {
                if self.links[l].ok_since.is_none() {
                    self.links[l].ok_since = Some(now);
                }
                let since = self.links[l].ok_since.unwrap();
                if !st.connected && !self.links[l].had_bind_fault && now - since > 31_000 {
                    return Err(Fail::new(
                        "real:not-rejoined-within-30s",
                        format!("link {l}: path and receiver fine since +{since} ms, still not connected at +{now} ms"),
                    ));
                }
            }
            self.links[l].live_prev = live;
            self.links[l].connected_prev = st.connected;
        }
        // ---- the receiver answers what it saw (20 ms later)
        let wire: Vec<(usize, Vec<u8>)> = o.wire.clone();
        self.answer(&wire).await
    }

    async fn answer(&mut self, wire: &[(usize, Vec<u8>)]) -> Result<(), Fail> {
        let n = MAX_ADDR;
        let mut replies: Vec<(usize, Vec<u8>)> = Vec::new();
        for (l, b) in wire {
            let l = *l;
            if l >= n {
                continue;
            }
            let t = pkt_type(b);
            match self.links[l].mode {
                Mode::BlackHole => continue,
                Mode::HandshakeLost if matches!(t, Some(0x9200) | Some(0x9201)) => continue,
                _ => {}
            }
            match t {
                Some(0x9200) if b.len() == 258 => {
                    let r = self.rec.replies(&[(l, b.clone())]);
                    for k in self.links.iter_mut() {
                        k.rec_known = false;
                    }
                    replies.extend(r);
                }
                Some(0x9201) if b.len() == 258 => {
                    let r = self.rec.replies(&[(l, b.clone())]);
                    if r.iter().any(|x| x.1 == [0x92, 0x02]) {
                        self.links[l].rec_known = true;
                    }
                    replies.extend(r);
                }
                Some(0x9000) => {
                    if self.links[l].rec_known {
                        replies.push((l, b.clone()));
                    }
                }
                _ => {}
            }
        }
        if replies.is_empty() {
            return Ok(());
        }
        replies.retain(|(l, _)| self.links[*l].present);
        if replies.is_empty() {
            return Ok(());
        }
        // the answers travel 20 ms (so keepalive round trips are measurable)
        let t = self.now() + 20;
        if t < self.next_hk {
            Box::pin(self.to(t)).await?;
        }
        let mut follow: Vec<(usize, Vec<u8>)> = Vec::new();
        for (l, b) in replies {
            let o = self.deliver(l, &b).await?;
            for (l2, b2) in &o.wire {
                if pkt_type(b2) == Some(0x9200) || pkt_type(b2) == Some(0x9201) {
                    follow.push((*l2, b2.clone()));
                }
            }
        }
        if !follow.is_empty() {
            // immediate REG1 (answer to REG_NGP) / REG2 broadcast: answered in the same exchange
            Box::pin(self.answer(&follow)).await?;
        }
        // flap: goes dark once REG3 was delivered
        for l in 0..n {
            if self.links[l].mode == Mode::Flap && self.links[l].rec_known && self.links[l].established {
                self.links[l].mode = Mode::BlackHole;
                self.cov.flaps += 1;
            }
        }
        Ok(())
    }

    /// One datagram from the receiver to link `l`.
    async fn deliver(&mut self, l: usize, b: &[u8]) -> Result<StepOut, Fail> {
        let now = self.now();
        self.links[l].last_delivery = now;
        if stamps_liveness(b) {
            self.links[l].last_live_delivery = now;
        }
        if b == [0x92, 0x02] {
            self.links[l].established = true;
            self.links[l].reg3_on_this_socket = true;
        }
        let o = self.rig.uplink_send(l, b).await.map_err(|e| Fail::new("MACHINERY", e))?;
        if let Some(t) = self.twin.as_mut() {
            let two = t.call(TwinCmd::Uplink { at: now, link: l, bytes: b.to_vec() })?;
            compare(&format!("datagram {:04x}/{} from the receiver on link {l}", pkt_type(b).unwrap_or(0), b.len()), now, &o, &two, MAX_ADDR)?;
        }
        self.absorb(&o, false)?;
        Ok(o)
    }

    fn surely_usable(&self) -> bool {
        // a link that the last statistics reported connected and live, on a healthy path, registered at the receiver
        self.pending_reload.is_none() && self.links.iter().any(|k| k.present && k.reg3_on_this_socket && k.mode == Mode::Ok && k.rec_known && !k.bind_fail && self.now().saturating_sub(k.last_live_delivery) + 2000 < self.timeout.min(self.timeout_prev))
    }

    async fn client(&mut self, p: Vec<u8>) -> Result<(), Fail> {
        let now = self.now();
        let usable = self.surely_usable();
        self.sent.insert(p.clone(), (now, usable));
        self.client_known = true;
        self.dirty = true;
        let o = self.rig.client_send(&p).await.map_err(|e| Fail::new("MACHINERY", e))?;
        if let Some(t) = self.twin.as_mut() {
            let two = t.call(TwinCmd::Client { at: now, bytes: p.clone() })?;
            compare(&format!("client datagram of {} bytes", p.len()), now, &o, &two, MAX_ADDR)?;
        }
        self.absorb(&o, false)
    }

    /// Everything the client sent while a surely usable link existed is on the wire once the
    /// flush tick after it has passed.
    fn check_forwarded(&self) -> Result<(), Fail> {
        let now = self.now();
        for (p, (at, usable)) in &self.sent {
            if *usable && p.len() <= 1500 && !p.is_empty() && now >= (*at / 15 + 2) * 15 && !self.copies.contains_key(p) {
                return Err(Fail::new(
                    "real:client-datagram-not-forwarded",
                    format!(
                        "a client datagram of {} bytes ({:02x?}..) sent at +{at} ms while a link was usable is still not on any uplink at +{now} ms (two flush ticks later)",
                        p.len(),
                        &p[..p.len().min(8)]
                    ),
                ));
            }
        }
        Ok(())
    }

    async fn second(&mut self, traffic: bool) -> Result<(), Fail> {
        let hk = self.next_hk;
        if traffic {
            // five datagrams 2 ms apart, early in the second
            for _ in 0..5 {
                let t = self.now() + 2;
                self.to(t).await?;
                let seq = self.next_seq;
                self.next_seq += 1;
                self.client(srt_data(seq, false, seq, 188)).await?;
            }
            let t = self.now() + 31;
            self.to(t.min(hk - 1)).await?;
            self.check_forwarded()?;
            self.acks().await?;
        }
        self.to(hk).await
    }

    /// SRTLA ACK per datagram on the link it arrived on, one cumulative SRT ACK (relayed to the client).
    async fn acks(&mut self) -> Result<(), Fail> {
        let n = MAX_ADDR;
        let mut per_link: Vec<Vec<u32>> = vec![Vec::new(); n];
        for (p, c) in &self.copies {
            if p.len() >= 4 && p[0] & 0x80 == 0 {
                let seq = u32::from_be_bytes([p[0], p[1], p[2], p[3]]);
                if seq >= self.acked_up_to {
                    if let Some((l, _)) = c.first() {
                        per_link[*l].push(seq);
                    }
                }
            }
        }
        let mut top = 0;
        for l in 0..n {
            if matches!(self.links[l].mode, Mode::BlackHole | Mode::DataHole) || !self.links[l].rec_known || !self.links[l].present {
                continue;
            }
            for q in per_link[l].clone() {
                let mut p = vec![0x91u8, 0x00, 0, 0];
                p.extend_from_slice(&q.to_be_bytes());
                self.deliver(l, &p).await?;
                top = top.max(q);
            }
        }
        self.acked_up_to = self.next_seq;
        if top > 0 {
            if let Some(l) = (0..n).find(|l| self.links[*l].present && !matches!(self.links[*l].mode, Mode::BlackHole | Mode::DataHole) && self.links[*l].rec_known) {
                let mut p = vec![0u8; 44];
                p[0] = 0x80;
                p[1] = 0x02;
                p[16..20].copy_from_slice(&top.to_be_bytes());
                self.relay(l, p).await?;
            }
        }
        Ok(())
    }

    /// A non-internal datagram from the receiver: must reach the client unchanged (once known).
    async fn relay(&mut self, l: usize, p: Vec<u8>) -> Result<(), Fail> {
        if self.links[l].mode == Mode::BlackHole || self.links[l].src_port.is_none() || !self.links[l].present {
            return Ok(());
        }
        self.relay_expected.push(p.clone());
        let before = self.relay_seen.get(&p).copied().unwrap_or(0);
        self.deliver(l, &p).await?;
        if self.client_known && self.relay_seen.get(&p).copied().unwrap_or(0) == before {
            return Err(Fail::new(
                "real:receiver-datagram-not-relayed",
                format!("a {}-byte datagram of type {:04x} from the receiver on link {l} did not reach the client", p.len(), pkt_type(&p).unwrap_or(0)),
            ));
        }
        Ok(())
    }

    async fn event(&mut self, ev: Ev) -> Result<(), Fail> {
        let n = MAX_ADDR;
        match ev {
            Ev::Sec => self.second(true).await,
            Ev::SecIdle => self.second(false).await,
            Ev::Fault(l, m) if l < n => {
                self.links[l].mode = m;
                Ok(())
            }
            Ev::Repair(l) if l < n => {
                self.links[l].mode = Mode::Ok;
                Ok(())
            }
            Ev::BindFails(l) if l < n => {
                self.links[l].bind_fail = true;
                self.links[l].had_bind_fault = true;
                self.binder.fail.lock().unwrap().push(link_ip(l));
                if let Some(t) = self.twin.as_mut() {
                    t.call(TwinCmd::BindFail { link: l, on: true })?;
                }
                Ok(())
            }
            Ev::BindOk(l) if l < n => {
                self.links[l].bind_fail = false;
                self.binder.fail.lock().unwrap().retain(|ip| *ip != link_ip(l));
                if let Some(t) = self.twin.as_mut() {
                    t.call(TwinCmd::BindFail { link: l, on: false })?;
                }
                Ok(())
            }
            Ev::Forget => {
                self.rec.group = None;
                for k in self.links.iter_mut() {
                    k.rec_known = false;
                    k.ok_since = None;
                }
                Ok(())
            }
            Ev::Relay(l, len) if l < n => {
                self.relay_tag += 1;
                let mut p = vec![0x80u8, 0x06, 0, 0];
                p.extend_from_slice(&(0xB000_0000u32 + self.relay_tag).to_be_bytes());
                p.resize(len.max(8), 0x5a);
                self.relay(l, p).await
            }
            Ev::Burst => {
                for _ in 0..40 {
                    let t = self.now() + 1;
                    if t >= self.next_hk {
                        break;
                    }
                    self.to(t).await?;
                    let seq = self.next_seq;
                    self.next_seq += 1;
                    self.client(srt_data(seq, false, seq, 188)).await?;
                }
                let t = (self.now() + 31).min(self.next_hk - 1);
                self.to(t).await?;
                self.check_forwarded()?;
                self.acks().await
            }
            Ev::Reload(text) => {
                // what the file must produce: parsable lines in order, duplicates once; nothing parsable: refused
                let mut want: Vec<usize> = Vec::new();
                for line in text.lines() {
                    if let Ok(std::net::IpAddr::V4(v)) = line.trim().parse::<std::net::IpAddr>() {
                        let o = v.octets();
                        if o[0] == 127 && o[3] >= 2 && ((o[3] - 2) as usize) < MAX_ADDR && !want.contains(&((o[3] - 2) as usize)) {
                            want.push((o[3] - 2) as usize);
                        }
                    }
                }
                self.rig.write_ips(text).map_err(|e| Fail::new("MACHINERY", e))?;
                unsafe { libc::raise(libc::SIGHUP) };
                let mut o = StepOut::default();
                self.rig.settle(&mut o).await.map_err(|e| Fail::new("MACHINERY", e))?;
                self.absorb(&o, false)?;
                // a later SIGHUP before the pass replaces an earlier one only if it is accepted
                let verdict = if want.is_empty() { None } else { Some(want) };
                match (&self.pending_reload, &verdict) {
                    (Some(Some(_)), None) => {}
                    _ => self.pending_reload = Some(verdict),
                }
                Ok(())
            }
            Ev::FrozenSubscriber(topic) => {
                let (tx, rx) = tokio::sync::mpsc::channel::<String>(1);
                let _id = self.rig.hub.subscribe(topic, tx).await;
                self.frozen.push(rx);
                self.cov.frozen_subscribers += 1;
                Ok(())
            }
            Ev::RelayBurst(l) if l < n => {
                if self.twin.is_some() {
                    // a batch is a property of the reader task, which the mirrored world does not have
                    return Ok(());
                }
                if self.links[l].mode == Mode::BlackHole || self.links[l].src_port.is_none() || !self.links[l].present {
                    return Ok(());
                }
                let mut batch: Vec<Vec<u8>> = Vec::new();
                for len in [16usize, 0, 2, 1316, 188] {
                    self.relay_tag += 1;
                    let mut p = vec![0x80u8, 0x06, 0, 0];
                    p.extend_from_slice(&(0xB100_0000u32 + self.relay_tag).to_be_bytes());
                    p.resize(len.max(8), 0x6b);
                    p.truncate(len);
                    batch.push(p);
                }
                // a 2-byte datagram carries no tag: make it distinguishable by its type alone
                let now = self.now();
                self.links[l].last_delivery = now;
                self.links[l].last_live_delivery = now;
                let expect: Vec<Vec<u8>> = batch.iter().filter(|p| p.len() >= 2).cloned().collect();
                let before: Vec<u32> = expect.iter().map(|p| self.relay_seen.get(p).copied().unwrap_or(0)).collect();
                self.relay_expected.extend(expect.iter().cloned());
                let o = self.rig.uplink_send_many(l, &batch).await.map_err(|e| Fail::new("MACHINERY", e))?;
                self.absorb(&o, false)?;
                if self.client_known {
                    for (p, b) in expect.iter().zip(before) {
                        if self.relay_seen.get(p).copied().unwrap_or(0) == b {
                            return Err(Fail::new(
                                "real:receiver-datagram-not-relayed",
                                format!("of five datagrams the receiver sent back to back on link {l} (16, 0, 2, 1316, 188 bytes) the one of {} bytes did not reach the client", p.len()),
                            ));
                        }
                    }
                }
                Ok(())
            }
            Ev::SetTimeout(ms) => {
                let applied = self.rig.config.set_conn_timeout_ms(ms);
                if let Some(t) = self.twin.as_mut() {
                    t.call(TwinCmd::SetTimeout { ms })?;
                }
                self.timeout_prev = self.timeout;
                self.timeout = applied;
                self.timeout_changed_at = self.now();
                Ok(())
            }
            Ev::Flood => {
                // start right after a pass, so that two housekeeping deadlines fall into the flood
                let hk = self.next_hk;
                self.to(hk).await?;
                let live: Vec<usize> = (0..n).filter(|l| self.links[*l].present && self.links[*l].live_prev && self.links[*l].mode == Mode::Ok).collect();
                let base = self.next_seq;
                let o = self.rig.flood(2600, 160, &|k| srt_data(base + k as u32, false, base + k as u32, 188)).await.map_err(|e| Fail::new("MACHINERY", e))?;
                // the datagrams of the flood are not entered in the ledger one by one: account for them wholesale
                let total = (2600 / 50) * 24 * 160;
                for k in 0..total {
                    let p = srt_data(base + k as u32, false, base + k as u32, 188);
                    self.sent.insert(p, (self.now(), false));
                }
                self.next_seq = base + total as u32;
                self.acked_up_to = self.next_seq;
                self.client_known = true;
                // two housekeeping deadlines passed in virtual time; the loop re-bases its (Delay) interval on the
                // time the late tick was actually taken, which the driver cannot see: re-synchronise on the next pass
                let mut ka: Vec<usize> = vec![0; n];
                // only keepalives sent *during* the flood count (their send time is in the frame): once the flood stops
                // even a starved housekeeping arm runs
                let flood_start = self.now() - 2600;
                for (l, b) in &o.wire {
                    if *l < n && pkt_type(b) == Some(0x9000) && b.len() >= 10 {
                        let ts = u64::from_be_bytes(b[2..10].try_into().unwrap());
                        if ts < T0 + flood_start + 2300 {
                            ka[*l] += 1;
                        }
                    }
                }
                if std::env::var("VERIF_TRACE").is_ok() {
                    eprintln!("TRACE flood: keepalives per link {ka:?}, wire datagrams {}, live {live:?}", o.wire.len());
                }
                for l in live {
                    if ka[l] == 0 {
                        return Err(Fail::new(
                            "real:keepalive-gap-over-two-periods",
                            format!("link {l}: connected and live; during the first 2.3 s of 2.6 s of saturating client traffic (two housekeeping deadlines fall into them) no keepalive was sent on it"),
                        ));
                    }
                }
                Err(Fail::new("STOP", String::new()))
            }
            Ev::SecHeavy => {
                let hk = self.next_hk;
                let mut k = 0u32;
                while self.now() + 7 < hk - 40 && k < 285 {
                    let t = self.now() + 3;
                    self.to(t).await?;
                    let seq = self.next_seq;
                    self.next_seq += 1;
                    self.client(srt_data(seq, false, seq, 1316)).await?;
                    k += 1;
                    if k % 32 == 0 {
                        self.acks().await?;
                    }
                }
                let t = (self.now() + 31).min(hk - 1);
                self.to(t).await?;
                self.check_forwarded()?;
                self.acks().await?;
                self.to(hk).await
            }
            Ev::Trickle => {
                for _ in 0..30 {
                    let t = self.now() + 10;
                    if t + 40 >= self.next_hk {
                        break;
                    }
                    self.to(t).await?;
                    let seq = self.next_seq;
                    self.next_seq += 1;
                    self.client(srt_data(seq, false, seq, 1316)).await?;
                    self.check_forwarded()?;
                }
                let t = (self.now() + 31).min(self.next_hk - 1);
                self.to(t).await?;
                self.check_forwarded()?;
                self.acks().await
            }
            Ev::OutageAll(secs) => {
                for k in self.links.iter_mut() {
                    if k.present {
                        k.mode = Mode::BlackHole;
                    }
                }
                for _ in 0..secs {
                    self.second(false).await?;
                }
                for k in self.links.iter_mut() {
                    k.mode = Mode::Ok;
                }
                for _ in 0..12 {
                    if self.links.iter().any(|k| k.present && k.reg3_on_this_socket && k.rec_known) {
                        break;
                    }
                    self.second(false).await?;
                }
                Ok(())
            }
            Ev::Outage(l, secs) if l < n => {
                self.links[l].mode = Mode::BlackHole;
                for _ in 0..secs {
                    self.second(false).await?;
                }
                self.links[l].mode = Mode::Ok;
                Ok(())
            }
            Ev::Mode(classic) => {
                self.rig.config.set_mode(if classic { SchedulingMode::Classic } else { SchedulingMode::Enhanced });
                Ok(())
            }
            Ev::Guard(on) => {
                self.rig.config.set_stall_deselect(on);
                Ok(())
            }
            Ev::SecHeavyNak(l, count) if l < n => {
                let hk = self.next_hk;
                let mut k = 0u32;
                let first = self.next_seq;
                while self.now() + 7 < hk - 60 && k < 285 {
                    let t = self.now() + 3;
                    self.to(t).await?;
                    let seq = self.next_seq;
                    self.next_seq += 1;
                    self.client(srt_data(seq, false, seq, 1316)).await?;
                    k += 1;
                }
                let t = (self.now() + 31).min(hk - 20);
                self.to(t).await?;
                self.check_forwarded()?;
                // the receiver reports the first `count` datagrams it got over link l as lost
                let mut lost: Vec<u32> = Vec::new();
                for (p, c) in &self.copies {
                    if p.len() >= 4 && p[0] & 0x80 == 0 {
                        let seq = u32::from_be_bytes([p[0], p[1], p[2], p[3]]);
                        if seq >= first && c.first().map(|x| x.0) == Some(l) {
                            lost.push(seq);
                        }
                    }
                }
                lost.sort_unstable();
                lost.truncate(count as usize);
                let via = (0..n).find(|j| self.links[*j].present && self.links[*j].mode == Mode::Ok && self.links[*j].rec_known);
                if let Some(via) = via {
                    for q in lost {
                        let mut p = vec![0x80u8, 0x03, 0, 0, 0, 0, 0, 0, 0, 0, 0, 0, 0, 0, 0, 0];
                        p[4..8].copy_from_slice(&q.to_be_bytes());
                        // unique per NAK, so that the relay ledger tells them apart
                        p[8..12].copy_from_slice(&(0x4e41_0000u32 + (q & 0xffff)).to_be_bytes());
                        self.relay(via, p).await?;
                    }
                }
                self.acks().await?;
                self.to(hk).await
            }
            Ev::PublishWindow => {
                let hub = self.rig.hub.clone();
                let k = self.cov.frozen_subscribers;
                tokio::spawn(async move {
                    hub.publish("priority.window", json!({"ms": 500, "n": k})).await;
                });
                let mut o = StepOut::default();
                self.rig.settle(&mut o).await.map_err(|e| Fail::new("MACHINERY", e))?;
                self.absorb(&o, false)
            }
            Ev::ClientLen(len) => {
                let t = self.now() + 1;
                if t >= self.next_hk {
                    return Ok(());
                }
                self.to(t).await?;
                let seq = self.next_seq;
                self.next_seq += 1;
                let mut p = srt_data(seq, false, seq, len.max(16));
                p.truncate(len);
                if len < 16 {
                    p = vec![0x33; len];
                }
                self.client(p).await?;
                let t = (self.now() + 31).min(self.next_hk - 1);
                self.to(t).await?;
                self.check_forwarded()
            }
            _ => Ok(()),
        }
    }

    /// Start-up script: registration of every link, three quiet seconds (Warming -> Live, RTT baseline).
    async fn establish(&mut self) -> Result<(), Fail> {
        if self.m.start_fault && self.m.n > 1 {
            self.links[1].mode = Mode::BlackHole;
            self.links[1].ok_since = None;
        }
        let mut o = StepOut::default();
        self.rig.settle(&mut o).await.map_err(|e| Fail::new("MACHINERY", e))?;
        if let Some(t) = self.twin.as_mut() {
            let two = t.call(TwinCmd::Start { n: self.m.n, timeout: self.m.timeout, classic: self.m.classic })?;
            compare("start-up (initial housekeeping)", 0, &o, &two, MAX_ADDR)?;
        }
        self.absorb(&o, false)?;
        self.answer(&o.wire.clone()).await?;
        for _ in 0..8 {
            let hk = self.next_hk;
            self.to(hk).await?;
            if self.links.iter().all(|k| !k.present || k.established || k.mode == Mode::BlackHole) && self.passes >= 5 {
                break;
            }
        }
        if !self.links.iter().all(|k| !k.present || k.established || k.mode == Mode::BlackHole) {
            return Err(Fail::new("MACHINERY", "start-up script: not every link registered within 8 s".into()));
        }
        Ok(())
    }
}

pub struct RunResult {
    pub fail: Option<(usize, Fail)>,
    pub digest: u64,
    pub steps: u64,
    pub cov: Cov,
}

/// Execute one path on a fresh real loop.
pub fn run_path(m: &LoopModel, path: &[usize]) -> RunResult {
    // the sender binds its listener by port number; losing the race for a probed-free port to another
    // process is not a result: try again with the next port
    for _ in 0..5 {
        let r = run_path_once(m, path);
        match &r.fail {
            Some((_, f)) if f.key == "MACHINERY" && f.msg.contains("bind local SRT UDP listener") => continue,
            _ => return r,
        }
    }
    run_path_once(m, path)
}

fn run_path_once(m: &LoopModel, path: &[usize]) -> RunResult {
    let mode = if m.classic { SchedulingMode::Classic } else { SchedulingMode::Enhanced };
    let cfg = DynamicConfig::from_cli(mode, false, false, 32, 3000, m.timeout);
    let binder = Arc::new(FaultBinder { fail: Default::default() });
    let b2 = binder.clone();
    let r = with_real_loop(m.n, cfg, binder, |rig| async move {
        let mut run = Run {
            m,
            rig,
            rec: FakeReceiver::default(),
            binder: b2,
            links: (0..MAX_ADDR)
                .map(|l| {
                    let mut k = fresh_link(0);
                    k.present = l < m.n;
                    k
                })
                .collect(),
            next_hk: 1000,
            dirty: false,
            next_seq: 1000,
            sent: BTreeMap::new(),
            copies: BTreeMap::new(),
            relay_expected: Vec::new(),
            relay_seen: BTreeMap::new(),
            client_known: false,
            relay_tag: 0,
            passes: 0,
            cov: Cov::default(),
            acked_up_to: 0,
            removed_sockets: Vec::new(),
            timeout: m.timeout,
            timeout_prev: m.timeout,
            timeout_changed_at: 0,
            pending_reload: None,
            reload_to_verify: None,
            frozen: Vec::new(),
            twin: if m.lockstep { Some(Twin::spawn()) } else { None },
        };
        let mut fail = None;
        if let Err(f) = run.establish().await {
            fail = Some((usize::MAX, f));
        } else {
            for (i, e) in path.iter().enumerate() {
                if let Err(f) = run.event(m.events[*e]).await {
                    // a flood leaves the loop's timers on a grid the driver does not know: the path ends there
                    if f.key != "STOP" {
                        fail = Some((i, f));
                    }
                    break;
                }
            }
        }
        let obs: Vec<(bool, u32, usize, Mode)> = run.links.iter().map(|k| (k.connected_prev, k.socket_changes, k.carried.len(), k.mode)).collect();
        let digest = hash_of(&(obs, run.copies.len(), run.relay_seen.len()));
        Ok(RunResult { fail, digest, steps: run.rig.settle_rounds, cov: run.cov.clone() })
    });
    match r {
        Ok(x) => x,
        Err(e) if e.starts_with("BLOCKED") => RunResult {
            fail: Some((path.len().saturating_sub(1), Fail::new("real:housekeeping-pass-stalled-and-hub-blocked", e))),
            digest: 0,
            steps: 0,
            cov: Cov::default(),
        },
        Err(e) => RunResult { fail: Some((usize::MAX, Fail::new("MACHINERY", e))), digest: 0, steps: 0, cov: Cov::default() },
    }
}

pub enum RealPlan {
    /// exactly these paths
    Explicit { name: String, paths: Vec<Vec<usize>> },
    Full { depth: usize },
    Dev { k: usize, depth: usize, default: usize },
}

impl RealPlan {
    pub fn describe(&self) -> String {
        match self {
            RealPlan::Explicit { name, paths } => format!("{name}({})", paths.len()),
            RealPlan::Full { depth } => format!("full({depth})"),
            RealPlan::Dev { k, depth, .. } => format!("dev({k},{depth})"),
        }
    }
    /// All paths of the plan (complete length; the monitor judges every prefix on the way).
    pub fn paths(&self, n_events: usize) -> Vec<Vec<usize>> {
        let mut out = Vec::new();
        match self {
            RealPlan::Explicit { paths, .. } => return paths.clone(),
            RealPlan::Full { depth } => {
                let mut cur = vec![0usize; *depth];
                loop {
                    out.push(cur.clone());
                    let mut i = *depth;
                    loop {
                        if i == 0 {
                            return out;
                        }
                        i -= 1;
                        cur[i] += 1;
                        if cur[i] < n_events {
                            break;
                        }
                        cur[i] = 0;
                    }
                }
            }
            RealPlan::Dev { k, depth, default } => {
                fn rec(out: &mut Vec<Vec<usize>>, cur: &mut Vec<usize>, from: usize, left: usize, n: usize, d: usize) {
                    out.push(cur.clone());
                    if left == 0 {
                        return;
                    }
                    for pos in from..cur.len() {
                        for e in 0..n {
                            if e == d {
                                continue;
                            }
                            cur[pos] = e;
                            rec(out, cur, pos + 1, left - 1, n, d);
                        }
                        cur[pos] = d;
                    }
                }
                let mut cur = vec![*default; *depth];
                rec(&mut out, &mut cur, 0, *k, n_events, *default);
                out
            }
        }
    }
}

/// Explore `plan` on the real loop; violations whose key starts with one of `keys` are reported
/// (each property judges its own clauses), the rest is counted as "seen, judged elsewhere".
pub fn explore(rep: &mut Report, m: &LoopModel, plan: &RealPlan, keys: &[&str], wall: Duration) -> Cov {
    let paths = plan.paths(m.events.len());
    let label = format!("{} {}", m.name, plan.describe());
    let t0 = Instant::now();
    let steps = AtomicU64::new(0);
    let skipped = AtomicU64::new(0);
    let threads = if m.single_thread { 1 } else { crate::engine::Limits::default().threads };
    let outs = par_map(paths.len(), threads, |i| {
        if t0.elapsed() > wall {
            skipped.fetch_add(1, Ordering::Relaxed);
            return None;
        }
        if std::env::var("VERIF_TRACE").is_ok() {
            eprintln!("TRACE path {:?}", paths[i]);
        }
        let r = run_path(m, &paths[i]);
        steps.fetch_add(r.steps, Ordering::Relaxed);
        Some(r)
    });
    let mut digests: BTreeSet<u64> = BTreeSet::new();
    let mut cov = Cov::default();
    let mut other: BTreeMap<String, u64> = BTreeMap::new();
    let mut ran = 0u64;
    for (i, o) in outs.into_iter().enumerate() {
        let Some(r) = o else { continue };
        ran += 1;
        digests.insert(r.digest);
        cov.socket_recreations += r.cov.socket_recreations;
        cov.rejoins += r.cov.rejoins;
        cov.forwarded += r.cov.forwarded;
        cov.relayed += r.cov.relayed;
        cov.keepalives += r.cov.keepalives;
        cov.flaps += r.cov.flaps;
        cov.reloads_applied += r.cov.reloads_applied;
        cov.reloads_refused += r.cov.reloads_refused;
        cov.frozen_subscribers += r.cov.frozen_subscribers;
        let Some((at, f)) = r.fail else { continue };
        if f.key == "MACHINERY" {
            if rep.machinery_errors.len() < 5 {
                rep.machinery_errors.push(format!("{label}: path {:?}: {}", paths[i], f.msg));
            }
            continue;
        }
        if !keys.iter().any(|k| f.key.starts_with(k)) {
            *other.entry(f.key.clone()).or_insert(0) += 1;
            continue;
        }
        // every failure that is kept as an artefact is replayed twice from scratch before it counts; once three of a
        // kind are confirmed the others are counted as they came (replaying thousands of them one after the other
        // on this thread is what made a run with a systematic failure take an hour)
        if rep.violations.iter().filter(|x| x.key == f.key).count() >= 3 {
            rep.count_violation(&f.key, 1);
            continue;
        }
        let again: Vec<Option<String>> = (0..2).map(|_| run_path(m, &paths[i]).fail.map(|x| x.1.key)).collect();
        if again.iter().any(|k| k.as_deref() != Some(f.key.as_str())) {
            if rep.machinery_errors.len() < 5 {
                rep.machinery_errors.push(format!("{label}: failure [{}] on path {:?} did not reproduce on two replays ({again:?})", f.key, paths[i]));
            }
            continue;
        }
        let upto = if at == usize::MAX { 0 } else { at + 1 };
        rep.add_violation(Violation {
            key: f.key.clone(),
            message: format!("{} (event {} of the path)", f.msg, if at == usize::MAX { "start-up".to_string() } else { format!("{at}: {}", m.event_name(paths[i][at])) }),
            replay: json!({
                "exploration": label,
                "path": &paths[i][..upto.max(1).min(paths[i].len())],
                "events": paths[i][..upto.min(paths[i].len())].iter().map(|e| m.event_name(*e)).collect::<Vec<_>>(),
            }),
        });
    }
    rep.traces += ran;
    rep.transitions += steps.load(Ordering::Relaxed);
    rep.states += digests.len() as u64;
    let sk = skipped.load(Ordering::Relaxed);
    if sk > 0 {
        rep.exhaustive = false;
    }
    rep.set(
        &format!("real_loop[{label}]"),
        json!({
            "executions": ran, "not_run_wall_cap": sk, "settling_rounds": steps.load(Ordering::Relaxed), "distinct_end_observations": digests.len(),
            "socket_recreations": cov.socket_recreations, "rejoins": cov.rejoins, "client_datagrams_on_the_wire": cov.forwarded,
            "receiver_datagrams_relayed": cov.relayed, "keepalives": cov.keepalives, "flaps_gone_dark": cov.flaps,
            "reloads_applied": cov.reloads_applied, "reloads_refused": cov.reloads_refused, "frozen_subscribers": cov.frozen_subscribers,
            "violations_of_other_properties_seen": other,
            "alphabet": (0..m.events.len()).map(|e| m.event_name(e)).collect::<Vec<_>>(),
        }),
    );
    cov
}

pub fn replay(models: &[LoopModel], v: &Value) -> Option<Result<(), String>> {
    let label = v["exploration"].as_str().unwrap_or("");
    if !label.starts_with("real loop") {
        return None;
    }
    let path: Vec<usize> = v["path"].as_array().map(|a| a.iter().map(|x| x.as_u64().unwrap_or(0) as usize).collect()).unwrap_or_default();
    // the model whose name is the longest prefix of the label (names extend one another: "... lockstep")
    let best = models.iter().filter(|m| label.starts_with(&format!("{} ", m.name))).max_by_key(|m| m.name.len());
    for m in best.into_iter() {
        {
            let r1 = run_path(m, &path).fail.map(|x| x.1);
            let r2 = run_path(m, &path).fail.map(|x| x.1);
            if r1.as_ref().map(|f| f.key.clone()) != r2.as_ref().map(|f| f.key.clone()) {
                return Some(Err("MACHINERY: two replays disagree".into()));
            }
            return Some(match r1 {
                None => Ok(()),
                Some(f) if f.key == "MACHINERY" => Err(format!("MACHINERY: {}", f.msg)),
                Some(f) => Err(format!("[{}] {}", f.key, f.msg)),
            });
        }
    }
    Some(Err(format!("unknown exploration label {label:?}")))
}

pub const ASSUMPTION: &str = "real-loop explorations run the unmodified run_sender_with_config (select! glue, timers, reader tasks, instant forwarder) on one thread under tokio's paused clock; the driver alone moves the clock and injects datagrams over loopback UDP, lets the loop run to quiescence after every stimulus (sentinel datagrams on a pinned CPU + a fixed number of cooperative yields), and never lets the housekeeping and the flush timer fall due in the same step while client data may be queued (tokio's select! picks among simultaneously ready branches at random). Observations: wire, client socket, SharedStats.";

// ---------------------------------------------------------------------------------------------
// Per-property use

/// Clause prefixes each property judges on the real loop.
pub fn keys_of(prop: &str) -> &'static [&'static str] {
    match prop {
        "C01" => &["real:client-datagram-not-forwarded", "real:unknown-or-modified-datagram-on-uplink", "real:per-link-order", "real:too-many-copies"],
        "C08" => &[
            "real:torn-down-before-the-configured-timeout",
            "real:reconnect-attempts-too-close",
            "real:silent-link-not-torn-down",
            "real:retries-stopped",
            "real:not-rejoined-within-30s",
            "real:rejoin-not-clean",
        ],
        "C09" => &["real:receiver-datagram-not-relayed", "real:client-received-unexpected-datagram"],
        "C14" => &["real:keepalive", "real:housekeeping-pass-stalled"],
        "C16" => &["real:cc-target"],
        "C17" => &["real:no-probation", "real:weak-entered"],
        "C19" => &["real:reload", "real:refused-reload", "real:datagram-from-unknown-source"],
        "C20" => &["real:housekeeping-pass-stalled"],
        _ => &[],
    }
}

/// (model, plan) pairs a property explores on the real loop.
pub fn plans_of(prop: &str, quick: bool) -> Vec<(LoopModel, RealPlan)> {
    let mut v = Vec::new();
    match prop {
        "C01" | "C09" => {
            v.push((LoopModel::new(2, 5000, false, 0), RealPlan::Full { depth: if quick { 3 } else { 4 } }));
            v.push((LoopModel::new(2, 5000, true, 0), RealPlan::Dev { k: if quick { 1 } else { 2 }, depth: if quick { 16 } else { 20 }, default: 0 }));
            if !quick {
                v.push((LoopModel::new(3, 5000, false, 0), RealPlan::Dev { k: 2, depth: 12, default: 0 }));
            }
        }
        "C08" => {
            v.push((LoopModel::new(2, 5000, false, 1), RealPlan::Dev { k: 1, depth: 25, default: 0 }));
            v.push((LoopModel::new(2, 5000, false, 1), RealPlan::Dev { k: 2, depth: if quick { 10 } else { 24 }, default: 1 }));
            v.push((LoopModel::new(2, 15000, true, 3), RealPlan::Dev { k: 1, depth: 40, default: 0 }));
            v.push((LoopModel::new(2, 5000, false, 3), RealPlan::Dev { k: 2, depth: if quick { 24 } else { 64 }, default: 0 }));
            v.push((LoopModel::new(2, 5000, false, 2), RealPlan::Dev { k: 2, depth: if quick { 10 } else { 30 }, default: 1 }));
            // a link that is dead from the very start and repaired later (default symbol SecIdle)
            v.push((LoopModel::new(2, 5000, false, 3).with_start_fault(), RealPlan::Dev { k: 1, depth: if quick { 42 } else { 60 }, default: 0 }));
            if !quick {
                v.push((LoopModel::new(2, 1000, false, 1), RealPlan::Dev { k: 2, depth: 20, default: 0 }));
                v.push((LoopModel::new(3, 5000, true, 1), RealPlan::Dev { k: 2, depth: 20, default: 0 }));
                v.push((LoopModel::new(2, 60000, false, 3), RealPlan::Dev { k: 1, depth: 100, default: 0 }));
            }
        }
        "C19" => {
            // one or two reloads (the second straight after the first, or one second later), then three seconds
            {
                let m = LoopModel::new(2, 5000, false, 4);
                let reloads: Vec<usize> = (0..m.events.len()).filter(|e| matches!(m.events[*e], Ev::Reload(_))).collect();
                let sec = m.index_of(Ev::SecIdle);
                let mut paths = Vec::new();
                for a in &reloads {
                    paths.push(vec![*a, sec, sec, sec]);
                    for b in &reloads {
                        paths.push(vec![*a, *b, sec, sec, sec]);
                        paths.push(vec![*a, sec, *b, sec, sec, sec]);
                    }
                }
                if !quick {
                    for a in &reloads {
                        for b in &reloads {
                            for c in &reloads {
                                paths.push(vec![*a, *b, *c, sec, sec, sec]);
                            }
                        }
                    }
                }
                v.push((m, RealPlan::Explicit { name: "reload-pairs".into(), paths }));
            }
            v.push((LoopModel::new(2, 5000, false, 4), RealPlan::Full { depth: if quick { 2 } else { 4 } }));
            v.push((LoopModel::new(2, 5000, false, 4), RealPlan::Dev { k: if quick { 1 } else { 2 }, depth: if quick { 10 } else { 12 }, default: 0 }));
        }
        "C16" => {
            v.push((LoopModel::new(2, 5000, false, 6), RealPlan::Dev { k: if quick { 1 } else { 2 }, depth: if quick { 12 } else { 16 }, default: 0 }));
        }
        "C17" => {
            // link 1 turns into a data hole under a heavy stream; a reload that keeps the list arrives at every
            // point of its share-weak run (and once not at all)
            let m = LoopModel::new(2, 5000, false, 7);
            let (heavy, hole, reload) = (m.index_of(Ev::SecHeavy), m.index_of(Ev::Fault(1, Mode::DataHole)), m.index_of(Ev::Reload("127.0.0.2\n127.0.0.3\n")));
            let mut paths = Vec::new();
            let positions: Vec<usize> = if quick { vec![usize::MAX, 15, 20, 25] } else { std::iter::once(usize::MAX).chain(10..32).collect() };
            for at in positions {
                let mut p = vec![heavy, heavy, heavy, hole];
                for k in 0..42 {
                    if k == at {
                        p.push(reload);
                    }
                    p.push(heavy);
                }
                paths.push(p);
            }
            v.push((m, RealPlan::Explicit { name: "data-hole-with-a-reload".into(), paths }));
            // the same data hole, then a stay in classic mode (link repaired, its window lowered by a NAK run so that
            // its classic share lies between the entering and the leaving threshold) and back: every length of the
            // weak run before the switch, every length of the stay
            let m = LoopModel::new(2, 5000, false, 9);
            let (heavy, hole, repair, classic, enhanced, naks) = (
                m.index_of(Ev::SecHeavy),
                m.index_of(Ev::Fault(1, Mode::DataHole)),
                m.index_of(Ev::Repair(1)),
                m.index_of(Ev::Mode(true)),
                m.index_of(Ev::Mode(false)),
                m.index_of(Ev::SecHeavyNak(1, 100)),
            );
            let guard_off = m.index_of(Ev::Guard(false));
            let mut paths = Vec::new();
            // the weak run starts about eleven passes after the hole opens
            let runs: Vec<usize> = if quick { vec![13, 18] } else { (10..=28).collect() };
            let stays: Vec<usize> = if quick { vec![2, 5] } else { (1..=8).collect() };
            for run in &runs {
                for stay in &stays {
                    let mut p = vec![heavy, heavy, heavy, hole];
                    p.extend(std::iter::repeat(heavy).take(*run));
                    // classic with the guard off (C10's setting): the repaired link is routed to again, by its window
                    p.extend([classic, guard_off, repair, naks]);
                    p.extend(std::iter::repeat(heavy).take(*stay));
                    p.push(enhanced);
                    p.extend(std::iter::repeat(heavy).take(4));
                    paths.push(p);
                }
            }
            v.push((m, RealPlan::Explicit { name: "data-hole-classic-stay-and-back".into(), paths }));
        }
        "C20" => {
            v.push((LoopModel::new(2, 5000, false, 5), RealPlan::Full { depth: if quick { 3 } else { 4 } }));
            v.push((LoopModel::new(2, 5000, false, 5), RealPlan::Dev { k: 2, depth: if quick { 8 } else { 16 }, default: 0 }));
        }
        "C14" => {
            v.push((LoopModel::new(2, 5000, false, 1), RealPlan::Dev { k: 1, depth: 25, default: 1 }));
            v.push((LoopModel::new(2, 5000, false, 1), RealPlan::Dev { k: 2, depth: if quick { 10 } else { 24 }, default: 1 }));
            // saturating ingress must not starve the housekeeping arm
            if !quick {
                v.push((LoopModel::new(2, 5000, false, 8), RealPlan::Full { depth: 2 }));
            }
            // a control client that never reads must not cost a single keepalive
            v.push((LoopModel::new(2, 5000, false, 5), RealPlan::Dev { k: 2, depth: if quick { 8 } else { 16 }, default: 0 }));
            if !quick {
                v.push((LoopModel::new(3, 15000, true, 1), RealPlan::Dev { k: 1, depth: 40, default: 0 }));
            }
        }
        _ => {}
    }
    v
}

/// Run the property's real-loop explorations into `rep`.
pub fn run_for(rep: &mut Report, prop: &str, quick: bool) {
    let keys = keys_of(prop);
    let wall = Duration::from_secs(if quick { 40 } else { 1500 });
    let mut total = Cov::default();
    for (m, plan) in plans_of(prop, quick) {
        let c = explore(rep, &m, &plan, keys, wall);
        total.socket_recreations += c.socket_recreations;
        total.rejoins += c.rejoins;
        total.forwarded += c.forwarded;
        total.relayed += c.relayed;
        total.keepalives += c.keepalives;
        total.flaps += c.flaps;
        total.reloads_applied += c.reloads_applied;
        total.reloads_refused += c.reloads_refused;
        total.frozen_subscribers += c.frozen_subscribers;
    }
    // vacuity guards: the explored runs went through the situations the clauses talk about
    let need: &[(&str, u64)] = match prop {
        "C01" => &[("client datagrams on the wire", total.forwarded)],
        "C08" => &[("socket re-creations", total.socket_recreations), ("rejoins", total.rejoins), ("flaps gone dark", total.flaps)],
        "C09" => &[("receiver datagrams relayed", total.relayed)],
        "C14" => &[("keepalives", total.keepalives)],
        "C16" => &[("client datagrams on the wire", total.forwarded), ("reloads applied", total.reloads_applied)],
        "C17" => &[("reloads applied", total.reloads_applied), ("client datagrams on the wire", total.forwarded)],
        "C19" => &[("reloads applied", total.reloads_applied), ("reloads refused", total.reloads_refused)],
        "C20" => &[("frozen subscribers", total.frozen_subscribers), ("keepalives", total.keepalives)],
        _ => &[],
    };
    for (what, n) in need {
        if *n == 0 {
            rep.machinery_errors.push(format!("real loop: vacuous, no explored run went through '{what}'"));
        }
    }
    rep.assume(ASSUMPTION);
}

/// `--replay` for artefacts of real-loop explorations (None: not one of ours).
pub fn replay_for(prop: &str, v: &Value) -> Option<Result<(), String>> {
    let mut models: Vec<LoopModel> = Vec::new();
    for q in [true, false] {
        for (m, _) in plans_of(prop, q) {
            models.push(m);
        }
    }
    replay(&models, v)
}

// ---------------------------------------------------------------------------------------------
// Lock-step conformance of the mirrored world against the real loop
//
// The world-based checks explore a *mirror* of the select! glue (world.rs). Besides the source-level
// fingerprint, the mirror is validated behaviourally: the same stimuli, at the same virtual instants,
// are applied to the real loop and to a world, and after every stimulus what the two put on the wire
// and hand to the client must agree (random ids masked). The world lives on a thread of its own (its
// arms block on a runtime of their own, which cannot be done from inside the real loop's runtime).

pub enum TwinCmd {
    Start { n: usize, timeout: u64, classic: bool },
    Housekeeping { at: u64 },
    Flush { at: u64 },
    Client { at: u64, bytes: Vec<u8> },
    Uplink { at: u64, link: usize, bytes: Vec<u8> },
    BindFail { link: usize, on: bool },
    SetTimeout { ms: u64 },
    Stop,
}

pub struct Twin {
    tx: std::sync::mpsc::Sender<TwinCmd>,
    rx: std::sync::mpsc::Receiver<StepOut>,
    pub steps: u64,
}

impl Twin {
    pub fn spawn() -> Twin {
        let (tx, crx) = std::sync::mpsc::channel::<TwinCmd>();
        let (otx, rx) = std::sync::mpsc::channel::<StepOut>();
        std::thread::spawn(move || {
            use crate::world::{Env, World};
            let mut env = Env::new();
            let mut w: Option<World> = None;
            let conv = |o: crate::world::Out| StepOut { wire: o.wire, client: o.client.into_iter().chain(o.instant).collect() };
            while let Ok(cmd) = crx.recv() {
                let out = match cmd {
                    TwinCmd::Start { n, timeout, classic } => {
                        let mode = if classic { SchedulingMode::Classic } else { SchedulingMode::Enhanced };
                        let cfg = DynamicConfig::from_cli(mode, false, false, 32, 3000, timeout);
                        let (world, out) = World::cold_start(&mut env, n, cfg, T0);
                        w = Some(world);
                        conv(out)
                    }
                    TwinCmd::Stop => break,
                    other => {
                        let Some(w) = w.as_mut() else { break };
                        match other {
                            TwinCmd::Housekeeping { at } => {
                                w.now = T0 + at;
                                conv(w.arm_housekeeping(&mut env))
                            }
                            TwinCmd::Flush { at } => {
                                w.now = T0 + at;
                                conv(w.arm_flush(&mut env))
                            }
                            TwinCmd::Client { at, bytes } => {
                                w.now = T0 + at;
                                conv(w.arm_client(&mut env, &bytes))
                            }
                            TwinCmd::Uplink { at, link, bytes } => {
                                w.now = T0 + at;
                                conv(w.arm_uplink(&mut env, link, &bytes))
                            }
                            TwinCmd::BindFail { link, on } => {
                                w.bind_fail[link] = on;
                                StepOut::default()
                            }
                            TwinCmd::SetTimeout { ms } => {
                                w.config.set_conn_timeout_ms(ms);
                                StepOut::default()
                            }
                            _ => StepOut::default(),
                        }
                    }
                };
                if otx.send(out).is_err() {
                    break;
                }
            }
        });
        Twin { tx, rx, steps: 0 }
    }

    fn call(&mut self, c: TwinCmd) -> Result<StepOut, Fail> {
        self.steps += 1;
        self.tx.send(c).map_err(|_| Fail::new("MACHINERY", "the world twin is gone".into()))?;
        self.rx.recv_timeout(Duration::from_secs(20)).map_err(|_| Fail::new("MACHINERY", "the world twin did not answer (it panicked?)".into()))
    }
}

impl Drop for Twin {
    fn drop(&mut self) {
        let _ = self.tx.send(TwinCmd::Stop);
    }
}

/// What must agree: per link the sequence of datagrams, with the fields that carry random ids masked.
fn normalise(o: &StepOut, n: usize) -> (Vec<Vec<Vec<u8>>>, Vec<Vec<u8>>) {
    let mut per: Vec<Vec<Vec<u8>>> = vec![Vec::new(); n.max(1)];
    for (l, b) in &o.wire {
        if *l >= per.len() {
            continue;
        }
        let mut b = b.clone();
        match pkt_type(&b) {
            // REG1 / REG2 carry the (random) group id
            Some(0x9200) | Some(0x9201) => b.truncate(2),
            // extended keepalive: the connection id (random) at 14..18
            Some(0x9000) if b.len() >= 18 => {
                for x in b[14..18].iter_mut() {
                    *x = 0;
                }
            }
            _ => {}
        }
        per[*l].push(b);
    }
    let mut c = o.client.clone();
    c.sort();
    (per, c)
}

pub fn compare(what: &str, at: u64, real: &StepOut, twin: &StepOut, n: usize) -> Result<(), Fail> {
    if normalise(real, n) != normalise(twin, n) {
        let show = |o: &StepOut| {
            format!(
                "wire {:?} client {:?}",
                o.wire.iter().map(|(l, b)| format!("{l}:{:04x}/{}", pkt_type(b).unwrap_or(0), b.len())).collect::<Vec<_>>(),
                o.client.iter().map(|b| format!("{:04x}/{}", pkt_type(b).unwrap_or(0), b.len())).collect::<Vec<_>>()
            )
        };
        return Err(Fail::new(
            "lockstep:mirror-differs-from-the-real-loop",
            format!("{what} at +{at} ms: the real loop produced {}, the mirrored world {}", show(real), show(twin)),
        ));
    }
    Ok(())
}

/// Behavioural binding of the mirror (world.rs) to the real loop: lock-step runs over whole plans.
/// A disagreement is a machinery error: the mirrored explorations cannot be trusted then.
pub fn run_lockstep(rep: &mut Report, quick: bool) {
    let plans: Vec<(LoopModel, RealPlan)> = if quick {
        vec![
            (LoopModel::new(2, 5000, false, 0).with_lockstep(), RealPlan::Full { depth: 2 }),
            (LoopModel::new(2, 5000, true, 1).with_lockstep(), RealPlan::Dev { k: 1, depth: 16, default: 0 }),
        ]
    } else {
        vec![
            (LoopModel::new(2, 5000, false, 0).with_lockstep(), RealPlan::Full { depth: 3 }),
            (LoopModel::new(2, 5000, true, 0).with_lockstep(), RealPlan::Dev { k: 2, depth: 12, default: 0 }),
            (LoopModel::new(2, 5000, false, 1).with_lockstep(), RealPlan::Dev { k: 2, depth: 14, default: 0 }),
            (LoopModel::new(2, 15000, true, 1).with_lockstep(), RealPlan::Dev { k: 1, depth: 30, default: 1 }),
            (LoopModel::new(3, 5000, false, 1).with_lockstep(), RealPlan::Dev { k: 1, depth: 20, default: 0 }),
            (LoopModel::new(2, 5000, false, 2).with_lockstep(), RealPlan::Dev { k: 2, depth: 12, default: 0 }),
            (LoopModel::new(2, 5000, false, 3).with_lockstep(), RealPlan::Dev { k: 1, depth: 60, default: 0 }),
        ]
    };
    let mut sub = Report::new();
    for (m, plan) in &plans {
        explore(&mut sub, m, plan, &["lockstep:"], Duration::from_secs(if quick { 30 } else { 900 }));
    }
    let runs = sub.traces;
    let rounds = sub.transitions;
    for v in sub.violations.drain(..) {
        if rep.machinery_errors.len() < 3 {
            rep.machinery_errors.push(format!("binding: {} [{}]", v.message, v.replay));
        }
    }
    rep.machinery_errors.extend(sub.machinery_errors.drain(..));
    for (k, v) in sub.extra {
        rep.extra.insert(k, v);
    }
    rep.traces += runs;
    rep.transitions += rounds;
    rep.set("mirror_validated_in_lock_step", json!({"executions": runs, "settling_rounds": rounds, "what": "every stimulus (timer instant, client datagram, receiver datagram, bind fault) applied to the real loop was applied to the mirrored world at the same virtual instant; after each one the datagrams per link and to the client agreed (group id and connection id masked)"}));
}
