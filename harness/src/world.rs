//! The shell "world": the real shell state of `run_sender_with_config`, driven
//! through the real shell functions over loopback UDP under a virtual clock.
//!
//! * `Env` — per worker thread: tokio runtime, the local listener, the "SRT
//!   client" socket, one receiver-side socket per uplink, channels the shell
//!   functions need. Not cloned.
//! * `World` — the shell state exactly as `run_sender_with_config` declares it.
//!   Cloneable (core state through the `Clone` hook; sockets are shared `Arc`s
//!   that are empty between events).
//!
//! The four arms of the `select!` loop are mirrored call-for-call in
//! `arm_client`, `arm_uplink`, `arm_housekeeping`, `arm_flush`; the mirror is
//! bound to the source by `glue_fingerprint`.

use std::collections::HashMap;
use std::net::{IpAddr, Ipv4Addr, SocketAddr, UdpSocket as StdUdp};
use std::sync::Arc;

use smallvec::SmallVec;
use srtla_core::connection::SrtlaConnection;
use srtla_core::priority::CriticalWindow;
use srtla_core::registration::SrtlaRegistrationManager;
use srtla_core::selection::classifier::WeakLinkFilter;
use srtla_core::selection::link_cc::{CcState, LinkCcController};
use srtla_send::config::DynamicConfig;
use srtla_send::net::{BatchUdpSocket, SourceIpBinder, UplinkBinder, create_uplink_socket};
use srtla_send::sender::verif_hooks::{
    ConnIo, ConnIoMap, ConnectionId, ReaderHandle, UplinkPacket, create_uplink_channel,
    drain_packet_queue, flush_all_batches, handle_housekeeping, handle_srt_packet,
    handle_uplink_packet,
};
use srtla_send::sender::{SequenceTracker, apply_connection_changes};
use srtla_send::stats::SharedStats;
use srtla_send::subscriptions::SubscriptionHub;
use tokio::sync::mpsc::{UnboundedReceiver, UnboundedSender};

use crate::util::set_now;

pub const MAX_LINKS: usize = 5;

/// Binder that can be told to fail for chosen source IPs (socket re-creation
/// fault), otherwise the production `SourceIpBinder`.
pub struct FaultBinder {
    pub fail: std::sync::Mutex<Vec<IpAddr>>,
}

impl UplinkBinder for FaultBinder {
    fn bind(&self, sock: &socket2::Socket, ip: IpAddr) -> anyhow::Result<()> {
        if self.fail.lock().unwrap().contains(&ip) {
            anyhow::bail!("injected bind failure for {ip}");
        }
        SourceIpBinder.bind(sock, ip)
    }
}

pub struct Env {
    pub rt: tokio::runtime::Runtime,
    pub listener: Arc<tokio::net::UdpSocket>,
    pub listener_addr: SocketAddr,
    pub client: StdUdp,
    pub client_addr: SocketAddr,
    pub rx: Vec<Option<StdUdp>>,
    pub rx_addr: Vec<SocketAddr>,
    pub packet_tx: UnboundedSender<UplinkPacket>,
    pub packet_rx: UnboundedReceiver<UplinkPacket>,
    pub instant_tx: UnboundedSender<(SocketAddr, SmallVec<u8, 64>)>,
    pub instant_rx: UnboundedReceiver<(SocketAddr, SmallVec<u8, 64>)>,
    pub readers: HashMap<ConnectionId, ReaderHandle>,
    pub binder: Arc<FaultBinder>,
    pub stats: SharedStats,
    pub hub: SubscriptionHub,
    /// also run SharedStats::update + hub.publish in the housekeeping arm
    pub full_glue: bool,
    /// receiver sockets in use (only these are polled after an event)
    pub n_active: usize,
    /// harness socket that sends an end-of-event sentinel to every receiver socket
    begin_sockets: Vec<Arc<BatchUdpSocket>>,
    sentinel: StdUdp,
    sentinel_rx: StdUdp,
    sentinel_addr: SocketAddr,
    sentinel_no: u64,
    pub sentinel_waits: u64,
    buf: Vec<u8>,
}

fn bind_rx(addr: SocketAddr) -> std::io::Result<StdUdp> {
    // exclusive bind (no SO_REUSEADDR): two workers must never share a receiver port
    let s = socket2::Socket::new(socket2::Domain::IPV4, socket2::Type::DGRAM, Some(socket2::Protocol::UDP))?;
    s.set_recv_buffer_size(4 << 20).ok();
    s.bind(&addr.into())?;
    s.set_nonblocking(true)?;
    Ok(s.into())
}

/// Receiver ports.
///
/// A world closes and re-opens receiver sockets (send-failure faults), and while one is closed
/// its port is free as far as the kernel is concerned: whoever binds it next receives what the
/// world keeps sending there. So ports are handed out under two reservations:
/// * across processes (checks may run side by side): each process owns one *slice* of the port
///   range 10000..30000 for its lifetime, claimed by an exclusive `flock` on a file under
///   `/tmp/srtla-verif-ports/`;
/// * inside the process: a port stays in `RESERVED` from the moment an `Env` gets it until that
///   `Env` is dropped, whether its socket is currently open or not.
static NEXT_PORT: std::sync::atomic::AtomicU32 = std::sync::atomic::AtomicU32::new(0);
static RESERVED: std::sync::Mutex<Option<std::collections::HashSet<u16>>> = std::sync::Mutex::new(None);
/// Ports released by a dropped `Env`, with the time of release: a datagram a worker sent just before it
/// dropped its `Env` may still sit in that CPU's loopback backlog, so the port is not handed out again
/// for a while (on top of the barrier `Env::drop` runs before it closes its sockets).
static COOLING: std::sync::Mutex<Vec<(u16, std::time::Instant)>> = std::sync::Mutex::new(Vec::new());

pub const SLICES: u32 = 40;
const SLICE_LEN: u32 = 500;

/// The slice of the port space this process owns (claimed once; `None`: none could be locked).
pub fn port_slice() -> Option<u32> {
    static SLICE: std::sync::OnceLock<Option<u32>> = std::sync::OnceLock::new();
    *SLICE.get_or_init(|| {
        use std::os::fd::IntoRawFd;
        let dir = std::path::Path::new("/tmp/srtla-verif-ports");
        let _ = std::fs::create_dir_all(dir);
        let start = std::process::id() % SLICES;
        for i in 0..SLICES {
            let n = (start + i) % SLICES;
            let Ok(f) = std::fs::OpenOptions::new().create(true).write(true).truncate(false).open(dir.join(format!("slice-{n}.lock"))) else { continue };
            let fd = f.into_raw_fd(); // kept open (and locked) until the process exits
            if unsafe { libc::flock(fd, libc::LOCK_EX | libc::LOCK_NB) } == 0 {
                return Some(n);
            }
            unsafe { libc::close(fd) };
        }
        None
    })
}

fn fresh_rx() -> (StdUdp, SocketAddr) {
    let slice = port_slice();
    loop {
        let k = NEXT_PORT.fetch_add(1, std::sync::atomic::Ordering::Relaxed);
        let port = match slice {
            Some(n) => 10_000 + n * SLICE_LEN + k % SLICE_LEN,
            // no slice could be locked (more than 40 checks at once): the old pid-spread scheme
            None => (12_000 + (std::process::id() % 97) * 200 + k % 19_000) % 20_000 + 10_000,
        } as u16;
        {
            let mut c = COOLING.lock().unwrap();
            c.retain(|(_, t)| t.elapsed() < std::time::Duration::from_millis(120));
            if c.iter().any(|(p, _)| *p == port) {
                continue;
            }
        }
        {
            let mut r = RESERVED.lock().unwrap();
            if !r.get_or_insert_with(Default::default).insert(port) {
                continue;
            }
        }
        let addr = SocketAddr::new(IpAddr::V4(Ipv4Addr::LOCALHOST), port);
        if let Ok(s) = bind_rx(addr) {
            return (s, addr);
        }
        RESERVED.lock().unwrap().as_mut().unwrap().remove(&port);
    }
}

impl Drop for Env {
    fn drop(&mut self) {
        // everything this worker sent has been delivered before its receiver sockets go away
        if !std::thread::panicking() {
            let _ = self.try_barrier();
        }
        self.rx.clear();
        {
            let mut c = COOLING.lock().unwrap();
            let now = std::time::Instant::now();
            for a in &self.rx_addr {
                c.push((a.port(), now));
            }
        }
        if let Some(r) = RESERVED.lock().unwrap().as_mut() {
            for a in &self.rx_addr {
                r.remove(&a.port());
            }
        }
    }
}

impl Env {
    pub fn new() -> Self {
        pin_this_thread();
        let rt = tokio::runtime::Builder::new_current_thread()
            .enable_io()
            .enable_time()
            .build()
            .expect("tokio runtime");
        let listener = rt
            .block_on(async { tokio::net::UdpSocket::bind("127.0.0.1:0").await })
            .expect("bind listener");
        let listener_addr = listener.local_addr().unwrap();
        let client = StdUdp::bind("127.0.0.1:0").expect("bind client");
        client.set_nonblocking(true).unwrap();
        let client_addr = client.local_addr().unwrap();
        let mut rx = Vec::new();
        let mut rx_addr = Vec::new();
        for _ in 0..MAX_LINKS {
            let (s, addr) = fresh_rx();
            rx.push(Some(s));
            rx_addr.push(addr);
        }
        let (packet_tx, packet_rx) = create_uplink_channel();
        let (instant_tx, instant_rx) = tokio::sync::mpsc::unbounded_channel();
        let sentinel_rx_sock = StdUdp::bind("127.0.0.1:0").expect("bind sentinel rx");
        sentinel_rx_sock.set_nonblocking(true).unwrap();
        let sentinel_addr = sentinel_rx_sock.local_addr().unwrap();
        Env {
            rt,
            listener: Arc::new(listener),
            listener_addr,
            client,
            client_addr,
            rx,
            rx_addr,
            packet_tx,
            packet_rx,
            instant_tx,
            instant_rx,
            readers: HashMap::new(),
            binder: Arc::new(FaultBinder { fail: Default::default() }),
            stats: SharedStats::new(),
            hub: SubscriptionHub::new(),
            full_glue: false,
            n_active: MAX_LINKS,
            sentinel: {
                let s = StdUdp::bind("127.0.0.1:0").expect("bind sentinel");
                s.set_nonblocking(true).unwrap();
                s
            },
            begin_sockets: Vec::new(),
            sentinel_rx: sentinel_rx_sock,
            sentinel_addr,
            sentinel_no: 0,
            sentinel_waits: 0,
            buf: vec![0u8; 2048],
        }
    }

    /// Make the real receiver-side sockets agree with the world's fault flags.
    fn sync_faults(&mut self, w: &World) {
        for i in 0..MAX_LINKS {
            let want_open = w.rx_open.get(i).copied().unwrap_or(true);
            if want_open && self.rx[i].is_none() {
                self.rx[i] = Some(bind_rx(self.rx_addr[i]).expect("re-bind receiver socket"));
            } else if !want_open && self.rx[i].is_some() {
                self.rx[i] = None;
            }
        }
        let mut f = self.binder.fail.lock().unwrap();
        f.clear();
        for (i, b) in w.bind_fail.iter().enumerate() {
            if *b {
                f.push(link_ip(i));
            }
        }
    }

    /// Everything the event put on the wire / relayed to the client.
    ///
    /// Loopback delivery normally completes inside the sending syscall, but
    /// under load the kernel may defer it to ksoftirqd. The worker thread is
    /// pinned to one CPU, so everything it sends goes through that CPU's
    /// backlog in FIFO order: a sentinel datagram sent *after* the event to
    /// each receiver socket is therefore delivered after everything the event
    /// sent to that socket. Reading each socket up to its sentinel yields
    /// exactly the event's datagrams, however long delivery was deferred.
    fn collect(&mut self, out: &mut Out) {
        self.sentinel_no += 1;
        let mut tag = [0u8; 24];
        tag[..8].copy_from_slice(b"\xffSENTNL\xff");
        tag[8..16].copy_from_slice(&self.sentinel_no.to_be_bytes());
        tag[16..24].copy_from_slice(&(std::process::id() as u64).to_be_bytes());
        let n = self.n_active.min(MAX_LINKS);
        for i in 0..n {
            if self.rx[i].is_some() {
                let _ = self.sentinel.send_to(&tag, self.rx_addr[i]);
            }
        }
        let _ = self.sentinel.send_to(&tag, self.client_addr);
        let deadline = std::time::Instant::now() + std::time::Duration::from_millis(2000);
        for i in 0..n {
            let Some(s) = &self.rx[i] else { continue };
            loop {
                match s.recv_from(&mut self.buf) {
                    Ok((k, _)) => {
                        if k == 24 && self.buf[..8] == tag[..8] {
                            if self.buf[..24] == tag {
                                break;
                            }
                            continue; // stale sentinel of an earlier event
                        }
                        if &self.buf[..k] == b"\xffPOKE\xff" {
                            continue;
                        }
                        out.wire.push((i, self.buf[..k].to_vec()));
                    }
                    Err(_) => {
                        self.sentinel_waits += 1;
                        if std::time::Instant::now() > deadline {
                            panic!("MACHINERY: end-of-event sentinel never arrived on receiver socket {i}");
                        }
                        std::thread::yield_now();
                    }
                }
            }
        }
        loop {
            match self.client.recv_from(&mut self.buf) {
                Ok((k, _)) => {
                    if k == 24 && self.buf[..8] == tag[..8] {
                        if self.buf[..24] == tag {
                            break;
                        }
                        continue;
                    }
                    out.client.push(self.buf[..k].to_vec());
                }
                Err(_) => {
                    self.sentinel_waits += 1;
                    if std::time::Instant::now() > deadline {
                        panic!("MACHINERY: end-of-event sentinel never arrived on the client socket");
                    }
                    std::thread::yield_now();
                }
            }
        }
        while let Ok((_, p)) = self.instant_rx.try_recv() {
            out.instant.push(p.to_vec());
        }
    }

    /// One sentinel round trip through this CPU's loopback backlog.
    fn barrier(&mut self) {
        if !self.try_barrier() {
            panic!("MACHINERY: barrier sentinel never arrived");
        }
    }

    fn try_barrier(&mut self) -> bool {
        self.sentinel_no += 1;
        let mut tag = [0u8; 24];
        tag[..8].copy_from_slice(b"\xffSENTNL\xff");
        tag[8..16].copy_from_slice(&self.sentinel_no.to_be_bytes());
        tag[16..24].copy_from_slice(&(std::process::id() as u64).to_be_bytes());
        let _ = self.sentinel.send_to(&tag, self.sentinel_addr);
        let deadline = std::time::Instant::now() + std::time::Duration::from_millis(2000);
        loop {
            match self.sentinel_rx.recv_from(&mut self.buf) {
                Ok((k, _)) if k == 24 && self.buf[..24] == tag => return true,
                Ok(_) => continue,
                Err(_) => {
                    if std::time::Instant::now() > deadline {
                        return false;
                    }
                    std::thread::yield_now();
                }
            }
        }
    }

    fn kill_readers(&mut self) {
        for (_, r) in self.readers.drain() {
            r.handle.abort();
        }
    }
}

impl Default for Env {
    fn default() -> Self {
        Self::new()
    }
}

static NEXT_CPU: std::sync::atomic::AtomicUsize = std::sync::atomic::AtomicUsize::new(0);

/// Pin the calling worker thread to one CPU (see `Env::collect`).
pub fn pin_this_thread() {
    thread_local! { static PINNED: std::cell::Cell<bool> = const { std::cell::Cell::new(false) }; }
    if PINNED.with(|p| p.replace(true)) {
        return;
    }
    // The CPUs this process may use, read once before anybody was pinned: a thread spawned by a pinned thread
    // inherits its one-CPU mask, and reading the mask there would put every worker of a later exploration on the
    // same CPU (a thorough run then crawls along on one core).
    static ALLOWED: std::sync::OnceLock<Vec<usize>> = std::sync::OnceLock::new();
    let cpus = ALLOWED.get_or_init(|| unsafe {
        let mut allowed: libc::cpu_set_t = std::mem::zeroed();
        if libc::sched_getaffinity(0, std::mem::size_of::<libc::cpu_set_t>(), &mut allowed) != 0 {
            return Vec::new();
        }
        (0..libc::CPU_SETSIZE as usize).filter(|c| libc::CPU_ISSET(*c, &allowed)).collect()
    });
    if cpus.is_empty() {
        return;
    }
    unsafe {
        let k = NEXT_CPU.fetch_add(1, std::sync::atomic::Ordering::Relaxed);
        let cpu = cpus[k % cpus.len()];
        let mut set: libc::cpu_set_t = std::mem::zeroed();
        libc::CPU_SET(cpu, &mut set);
        libc::sched_setaffinity(0, std::mem::size_of::<libc::cpu_set_t>(), &set);
    }
}

pub fn link_ip(i: usize) -> IpAddr {
    IpAddr::V4(Ipv4Addr::new(127, 0, 0, 2 + i as u8))
}

#[derive(Default, Debug, Clone)]
pub struct Out {
    /// (receiver socket index == link index at creation, datagram) in arrival order per socket
    pub wire: Vec<(usize, Vec<u8>)>,
    pub client: Vec<Vec<u8>>,
    pub instant: Vec<Vec<u8>>,
    pub hk_error: Option<String>,
}

pub struct World {
    pub now: u64,
    pub connections: SmallVec<SrtlaConnection, 4>,
    pub conn_io: ConnIoMap,
    pub reg: SrtlaRegistrationManager,
    pub seq_tracker: Arc<SequenceTracker>,
    pub last_selected_idx: Option<usize>,
    pub last_client_addr: Option<SocketAddr>,
    pub all_failed_at: Option<u64>,
    pub pending_ips: Option<SmallVec<IpAddr, 4>>,
    pub weak_filter: WeakLinkFilter,
    pub cc: LinkCcController,
    pub config: DynamicConfig,
    pub crit_deadline: u64,
    pub critical: CriticalWindow,
    pub rx_open: Vec<bool>,
    pub bind_fail: Vec<bool>,
    /// receiver host/port used by reloads (C19 worlds: single receiver)
    pub receiver: SocketAddr,
    /// a receiver socket was closed at some point in this world's history
    pub fault_seen: bool,
    /// per link (by conn_id): a socket error (ICMP port unreachable) is pending on
    /// its uplink socket. The kernel keeps this on the socket, which sibling
    /// states share, so it is captured into the state after every event and
    /// re-created on the socket before the next one.
    pub pending_err: Vec<(u64, bool)>,
}

impl Clone for World {
    fn clone(&self) -> Self {
        let snap = self.config.snapshot();
        let critical = CriticalWindow::new();
        if self.crit_deadline > 0 {
            critical.extend_to(self.crit_deadline);
        }
        World {
            now: self.now,
            connections: self.connections.clone(),
            conn_io: self
                .conn_io
                .iter()
                .map(|(k, io)| {
                    (
                        *k,
                        ConnIo {
                            socket: io.socket.clone(),
                            binder: io.binder.clone(),
                            remote: io.remote,
                        },
                    )
                })
                .collect(),
            reg: self.reg.clone(),
            seq_tracker: self.seq_tracker.clone(),
            last_selected_idx: self.last_selected_idx,
            last_client_addr: self.last_client_addr,
            all_failed_at: self.all_failed_at,
            pending_ips: self.pending_ips.clone(),
            weak_filter: self.weak_filter.clone(),
            cc: self.cc.clone(),
            config: DynamicConfig::from_cli(
                snap.mode,
                !snap.quality_enabled,
                !snap.stall_deselect,
                snap.stall_min_in_flight,
                snap.stall_ack_stale_ms,
                snap.conn_timeout_ms,
            ),
            crit_deadline: self.crit_deadline,
            critical,
            rx_open: self.rx_open.clone(),
            bind_fail: self.bind_fail.clone(),
            receiver: self.receiver,
            fault_seen: self.fault_seen,
            pending_err: self.pending_err.clone(),
        }
    }
}

/// What `connections::connect_uplink` does, with a per-link remote so that a
/// single link's receiver can be failed.
fn connect_link(env: &Env, i: usize, now: u64) -> (SrtlaConnection, ConnIo) {
    let ip = link_ip(i);
    let remote = env.rx_addr[i];
    let sock = create_uplink_socket(ip).expect("create_uplink_socket");
    let binder: Arc<dyn UplinkBinder> = env.binder.clone();
    binder.bind(&sock, ip).expect("bind uplink");
    sock.connect(&remote.into()).expect("connect uplink");
    sock.set_nonblocking(true).unwrap();
    let socket = Arc::new(BatchUdpSocket::new(sock).expect("BatchUdpSocket"));
    let conn_id = 0x1000 + i as u64;
    let label = format!("127.0.0.1:{} via {}", remote.port(), ip);
    let conn = SrtlaConnection::new_registering(conn_id, label, ip, now);
    (conn, ConnIo { socket, binder, remote })
}

impl World {
    /// S0 — cold start exactly as `run_sender_with_config` does it: create the
    /// uplinks, start probing and send the probes, run one housekeeping pass.
    pub fn cold_start(env: &mut Env, n: usize, config: DynamicConfig, now: u64) -> (World, Out) {
        set_now(now);
        env.kill_readers();
        // a previous world of this worker may have left receiver sockets closed / bind faults armed
        for i in 0..MAX_LINKS {
            if env.rx[i].is_none() {
                env.rx[i] = Some(bind_rx(env.rx_addr[i]).expect("re-bind receiver socket"));
            }
        }
        env.binder.fail.lock().unwrap().clear();
        let mut out = Out::default();
        // discard anything left over on the sockets from a previous world
        env.n_active = MAX_LINKS;
        env.collect(&mut Out::default());
        env.n_active = n;
        let mut w = env.rt.block_on(async {
            let mut connections: SmallVec<SrtlaConnection, 4> = SmallVec::new();
            let mut conn_io: ConnIoMap = HashMap::new();
            for i in 0..n {
                let (c, io) = connect_link(env, i, now);
                conn_io.insert(c.conn_id, io);
                connections.push(c);
            }
            let mut reg = SrtlaRegistrationManager::new();
            let probes = reg.start_probing(&mut connections, now);
            for (idx, pkt) in probes {
                if let Some(conn) = connections.get(idx)
                    && let Some(io) = conn_io.get(&conn.conn_id)
                {
                    let _ = io.socket.send(&pkt).await;
                }
            }
            World {
                now,
                connections,
                conn_io,
                reg,
                seq_tracker: Arc::new(SequenceTracker::new()),
                last_selected_idx: None,
                last_client_addr: None,
                all_failed_at: None,
                pending_ips: None,
                weak_filter: WeakLinkFilter::new(),
                cc: LinkCcController::new(),
                config,
                crit_deadline: 0,
                critical: CriticalWindow::new(),
                rx_open: vec![true; MAX_LINKS],
                bind_fail: vec![false; MAX_LINKS],
                receiver: env.rx_addr[0],
                fault_seen: false,
                pending_err: Vec::new(),
            }
        });
        env.collect(&mut out);
        // "Run housekeeping once before entering the main event loop"
        let o2 = w.initial_housekeeping(env);
        out.wire.extend(o2.wire);
        out.hk_error = o2.hk_error;
        (w, out)
    }

    fn initial_housekeeping(&mut self, env: &mut Env) -> Out {
        let mut out = Out::default();
        env.sync_faults(self);
        set_now(self.now);
        let classic = self.config.mode().is_classic();
        let r = env.rt.block_on(handle_housekeeping(
            &mut self.connections,
            &mut self.conn_io,
            &mut self.reg,
            classic,
            self.now,
            &mut self.all_failed_at,
            &mut env.readers,
            &env.packet_tx,
        ));
        if let Err(e) = r {
            out.hk_error = Some(e.to_string());
        }
        env.kill_readers();
        env.collect(&mut out);
        out
    }

    /// Before an event: make the real sockets agree with the state (fault flags,
    /// pending socket errors).
    fn begin(&mut self, env: &mut Env) {
        env.sync_faults(self);
        if !self.fault_seen {
            if self.rx_open.iter().take(env.n_active).any(|o| !*o) {
                self.fault_seen = true;
            } else {
                return;
            }
        }
        // sockets this event starts with: a reconnect may replace one, but sibling states
        // still share the old one, so it must be left clean as well
        env.begin_sockets.clear();
        for io in self.conn_io.values() {
            env.begin_sockets.push(io.socket.clone());
        }
        let mut poked = false;
        for (id, pend) in self.pending_err.iter() {
            if !*pend {
                continue;
            }
            if let Some(io) = self.conn_io.get(id) {
                // re-create the pending error: a poke into the (closed) receiver port
                let _ = io.socket.get_ref().take_error();
                let _ = io.socket.get_ref().send(b"\xffPOKE\xff");
                poked = true;
            }
        }
        if poked {
            // round 1: the pokes are processed (ICMP generated); round 2: the ICMPs are delivered
            env.barrier();
            env.barrier();
        }
    }

    /// After an event: capture pending socket errors into the state (and clear
    /// them on the shared sockets).
    fn end(&mut self, env: &mut Env) {
        if !self.fault_seen {
            return;
        }
        // the event's own datagrams were processed before collect() saw its sentinels;
        // one more round delivers the ICMP errors they caused
        env.barrier();
        // first the sockets the links use now: their pending error becomes part of the state ...
        self.pending_err.clear();
        for c in self.connections.iter() {
            if let Some(io) = self.conn_io.get(&c.conn_id) {
                let e = io.socket.get_ref().take_error().ok().flatten().is_some();
                self.pending_err.push((c.conn_id, e));
            }
        }
        // ... then whatever is left on sockets the event replaced (siblings still share them)
        for s in env.begin_sockets.drain(..) {
            let _ = s.get_ref().take_error();
        }
    }

    pub fn advance(&mut self, dt: u64) {
        self.now += dt;
    }

    /// Arm 1: a datagram from the local SRT endpoint.
    pub fn arm_client(&mut self, env: &mut Env, pkt: &[u8]) -> Out {
        let mut out = Out::default();
        self.begin(env);
        set_now(self.now);
        let mut recv_buf = vec![0u8; srtla_protocol::MTU];
        let n = pkt.len().min(recv_buf.len());
        recv_buf[..n].copy_from_slice(&pkt[..n]);
        let src = env.client_addr;
        let tracker = Arc::make_mut(&mut self.seq_tracker);
        env.rt.block_on(async {
            let config_snap = self.config.snapshot();
            handle_srt_packet(
                Ok((n, src)),
                &mut recv_buf,
                &mut self.connections,
                &self.conn_io,
                &mut self.last_selected_idx,
                tracker,
                &mut self.last_client_addr,
                self.reg.has_connected,
                &config_snap,
                &self.critical,
            )
            .await;
            drain_packet_queue(
                &mut env.packet_rx,
                &mut self.connections,
                &self.conn_io,
                &mut self.reg,
                &env.instant_tx,
                self.last_client_addr,
                &env.listener,
                tracker,
                &config_snap,
            )
            .await;
        });
        env.collect(&mut out);
        self.end(env);
        out
    }

    /// What a reader task does: put a datagram read from uplink `idx`'s socket on the channel
    /// without processing it (it is handled by the next arm's `drain_packet_queue`).
    pub fn enqueue_uplink(&self, env: &mut Env, idx: usize, bytes: &[u8]) {
        if let Some(c) = self.connections.get(idx) {
            let _ = env.packet_tx.send(UplinkPacket { conn_id: c.conn_id, bytes: SmallVec::from_slice_copy(bytes) });
        }
    }

    /// Arm 2: a datagram read from uplink `idx`'s socket.
    pub fn arm_uplink(&mut self, env: &mut Env, idx: usize, bytes: &[u8]) -> Out {
        let mut out = Out::default();
        if idx >= self.connections.len() {
            return out;
        }
        self.begin(env);
        set_now(self.now);
        let packet = UplinkPacket {
            conn_id: self.connections[idx].conn_id,
            bytes: SmallVec::from_slice_copy(bytes),
        };
        let tracker: &SequenceTracker = &self.seq_tracker;
        env.rt.block_on(async {
            let config_snap = self.config.snapshot();
            handle_uplink_packet(
                packet,
                &mut self.connections,
                &self.conn_io,
                &mut self.reg,
                &env.instant_tx,
                self.last_client_addr,
                &env.listener,
                tracker,
                &config_snap,
            )
            .await;
            drain_packet_queue(
                &mut env.packet_rx,
                &mut self.connections,
                &self.conn_io,
                &mut self.reg,
                &env.instant_tx,
                self.last_client_addr,
                &env.listener,
                tracker,
                &config_snap,
            )
            .await;
        });
        env.collect(&mut out);
        self.end(env);
        out
    }

    /// Arm 3: the housekeeping tick (the caller advances the clock first).
    pub fn arm_housekeeping(&mut self, env: &mut Env) -> Out {
        let mut out = Out::default();
        self.begin(env);
        set_now(self.now);
        let classic = self.config.mode().is_classic();
        let full = env.full_glue;
        let binder: Arc<dyn UplinkBinder> = env.binder.clone();
        let receiver = self.receiver;
        env.rt.block_on(async {
            let conn_timeout_ms = self.config.snapshot().conn_timeout_ms;
            for conn in self.connections.iter_mut() {
                conn.set_conn_timeout_ms(conn_timeout_ms);
            }
            if let Err(err) = handle_housekeeping(
                &mut self.connections,
                &mut self.conn_io,
                &mut self.reg,
                classic,
                self.now,
                &mut self.all_failed_at,
                &mut env.readers,
                &env.packet_tx,
            )
            .await
            {
                out.hk_error = Some(err.to_string());
            }
            let classification = self.weak_filter.classify(&self.connections);
            let link_cc_snapshots = self.cc.tick_all(&self.connections, srtla_core::utils::now_ms());
            for conn in self.connections.iter_mut() {
                conn.weak = classification
                    .per_link
                    .iter()
                    .find(|e| e.conn_id == conn.conn_id)
                    .map(|e| e.weak)
                    .unwrap_or(false);
                let cc_snap = link_cc_snapshots.get(&conn.conn_id);
                conn.cc_backing_off = cc_snap.map(|s| s.state == CcState::BackingOff).unwrap_or(false);
                conn.cc_target_bps = cc_snap.map(|s| s.target_bps).unwrap_or(0);
                conn.loss_degraded = cc_snap.map(|s| s.loss_degraded).unwrap_or(false);
            }
            if full {
                env.stats.update(
                    &self.connections,
                    &self.config.snapshot(),
                    Some(&classification),
                    Some(&link_cc_snapshots),
                );
                let snap = env.stats.get();
                if let Ok(value) = serde_json::to_value(&snap) {
                    env.hub.publish("stats", value).await;
                }
            }
            if let Some(new_ips) = self.pending_ips.take() {
                let tracker = Arc::make_mut(&mut self.seq_tracker);
                apply_connection_changes(
                    &mut self.connections,
                    &mut self.conn_io,
                    &new_ips,
                    &receiver.ip().to_string(),
                    receiver.port(),
                    &mut self.last_selected_idx,
                    tracker,
                    &binder,
                )
                .await;
            }
            let config_snap = self.config.snapshot();
            let tracker: &SequenceTracker = &self.seq_tracker;
            drain_packet_queue(
                &mut env.packet_rx,
                &mut self.connections,
                &self.conn_io,
                &mut self.reg,
                &env.instant_tx,
                self.last_client_addr,
                &env.listener,
                tracker,
                &config_snap,
            )
            .await;
        });
        env.kill_readers();
        env.collect(&mut out);
        self.end(env);
        out
    }

    /// Arm 4: the 15 ms flush tick.
    pub fn arm_flush(&mut self, env: &mut Env) -> Out {
        let mut out = Out::default();
        self.begin(env);
        set_now(self.now);
        env.rt
            .block_on(flush_all_batches(&mut self.connections, &self.conn_io));
        env.collect(&mut out);
        self.end(env);
        out
    }

    pub fn open_critical(&mut self, ms: u64) {
        let d = self.now + ms;
        self.critical.extend_to(d);
        if d > self.crit_deadline {
            self.crit_deadline = d;
        }
    }

    pub fn link_of_conn(&self, conn_id: u64) -> Option<usize> {
        self.connections.iter().position(|c| c.conn_id == conn_id)
    }
}

// ----------------------------------------------------------------------------
// a well-behaved fake receiver (used by scripted prefixes and by C08's seconds)

#[derive(Clone, Debug, Default)]
pub struct FakeReceiver {
    /// group id known to the receiver (set by REG1, forgotten by `forget`)
    pub group: Option<Vec<u8>>,
}

pub fn pkt_type(b: &[u8]) -> Option<u16> {
    if b.len() >= 2 { Some(((b[0] as u16) << 8) | b[1] as u16) } else { None }
}

impl FakeReceiver {
    /// The replies srtla_rec would send for the datagrams in `wire`:
    /// (link index, reply bytes).
    pub fn replies(&mut self, wire: &[(usize, Vec<u8>)]) -> Vec<(usize, Vec<u8>)> {
        let mut out = Vec::new();
        for (l, b) in wire {
            match pkt_type(b) {
                Some(0x9200) if b.len() == 258 => {
                    // REG1: create the group; the receiver fills the second half of the id
                    let mut id = b[2..].to_vec();
                    for x in id[128..].iter_mut() {
                        *x = 0xab;
                    }
                    self.group = Some(id.clone());
                    let mut r = vec![0x92, 0x01];
                    r.extend_from_slice(&id);
                    out.push((*l, r));
                }
                Some(0x9201) if b.len() == 258 => {
                    if self.group.as_deref() == Some(&b[2..]) {
                        out.push((*l, vec![0x92, 0x02]));
                    } else {
                        out.push((*l, vec![0x92, 0x11]));
                    }
                }
                Some(0x9000) => out.push((*l, b.clone())),
                _ => {}
            }
        }
        out
    }
}

/// Deliver receiver replies through the uplink arm; returns everything the
/// sender emitted in response.
pub fn deliver(env: &mut Env, w: &mut World, replies: &[(usize, Vec<u8>)]) -> Out {
    let mut all = Out::default();
    for (l, b) in replies {
        // receiver-socket index -> current link index (links keep creation order
        // in every world that uses this helper)
        let o = w.arm_uplink(env, *l, b);
        all.wire.extend(o.wire);
        all.client.extend(o.client);
        all.instant.extend(o.instant);
    }
    all
}

/// S1(n): cold start, probes answered (REG_NGP), REG1 -> REG2 -> broadcast ->
/// REG3 on all n links, driven entirely by the real code and the fake receiver.
pub fn established(env: &mut Env, n: usize, config: DynamicConfig, now: u64) -> (World, FakeReceiver) {
    let (mut w, out) = World::cold_start(env, n, config, now);
    let mut rec = FakeReceiver::default();
    let mut pending = rec.replies(&out.wire);
    for _round in 0..8 {
        let o = deliver(env, &mut w, &pending);
        pending = rec.replies(&o.wire);
        w.advance(100);
        let o2 = w.arm_housekeeping(env);
        pending.extend(rec.replies(&o2.wire));
        if w.connections.iter().all(|c| c.connected) && pending.is_empty() {
            break;
        }
    }
    assert!(
        w.connections.iter().all(|c| c.connected),
        "scripted handshake did not connect all links"
    );
    (w, rec)
}

// ----------------------------------------------------------------------------
// binding of the mirrored glue to the source

/// Ordered shell-function calls per `select!` arm that the mirror implements.
pub const GLUE_EXPECTED: [&str; 22] = [
    // initial housekeeping
    "handle_housekeeping",
    // client arm
    "handle_srt_packet",
    "drain_packet_queue",
    // uplink arm
    "handle_uplink_packet",
    "drain_packet_queue",
    // housekeeping arm
    "set_conn_timeout_ms",
    "handle_housekeeping",
    "classify",
    "tick_all",
    "update",
    "publish",
    "apply_connection_changes",
    "sync_readers",
    "log_connection_status",
    "sync_readers",
    "drain_packet_queue",
    // flush arm
    "flush_all_batches",
    // SIGHUP arm
    "analyze_ip_reload",
    "drain_packet_queue",
    // after the loop
    "read_ip_list",
    "analyze_ip_reload_text",
    "",
];

/// Extract the ordered list of shell-function call names from
/// `run_sender_with_config`'s body (from the initial housekeeping on) and
/// compare it with what the mirror implements. `Err` = binding stale.
pub fn glue_fingerprint() -> Result<Vec<String>, String> {
    // VERIF_REPO: only for experiments against a scratch copy of the repository (tools/scratch_try.sh)
    let path = std::env::var("VERIF_REPO").map(|r| format!("{r}/src/sender/mod.rs")).unwrap_or_else(|_| "/repo/src/sender/mod.rs".to_string());
    let path = path.as_str();
    let text = std::fs::read_to_string(path).map_err(|e| format!("cannot read {path}: {e}"))?;
    let start = text
        .find("// Main loop - run housekeeping frequently")
        .or_else(|| text.find("let mut sighup"))
        .ok_or("cannot find the start of the event loop in sender/mod.rs")?;
    let end = text[start..]
        .find("#[cfg(feature = \"verif-hooks\")]")
        .map(|e| start + e)
        .unwrap_or(text.len());
    let body = &text[start..end];
    let names = [
        "handle_housekeeping",
        "set_conn_timeout_ms",
        "handle_srt_packet",
        "drain_packet_queue",
        "handle_uplink_packet",
        "classify",
        "tick_all",
        "update",
        "publish",
        "apply_connection_changes",
        "sync_readers",
        "log_connection_status",
        "flush_all_batches",
        "analyze_ip_reload_text",
        "analyze_ip_reload",
        "read_ip_list",
        "forward_via_connection",
        "process_connection_events",
        "attribute_nak",
        "reconnect_uplink",
    ];
    // tokenizer: identifiers followed by '(' outside comments
    let mut found: Vec<String> = Vec::new();
    for line in body.lines() {
        let code = line.split("//").next().unwrap_or("");
        let bytes = code.as_bytes();
        let mut i = 0;
        while i < bytes.len() {
            if bytes[i].is_ascii_alphabetic() || bytes[i] == b'_' {
                let s = i;
                while i < bytes.len() && (bytes[i].is_ascii_alphanumeric() || bytes[i] == b'_') {
                    i += 1;
                }
                let ident = &code[s..i];
                let mut j = i;
                while j < bytes.len() && bytes[j] == b' ' {
                    j += 1;
                }
                if j < bytes.len() && bytes[j] == b'(' && names.contains(&ident) {
                    // `fn read_ip_list(` is a definition, not a call: keep it as a marker too
                    found.push(ident.to_string());
                }
            } else {
                i += 1;
            }
        }
    }
    let expected: Vec<String> = GLUE_EXPECTED
        .iter()
        .filter(|s| !s.is_empty())
        .map(|s| s.to_string())
        .collect();
    if found != expected {
        return Err(format!(
            "binding stale: the select! glue in {path} calls {found:?}, the mirror implements {expected:?}"
        ));
    }
    // token digest of the whole region (comments and whitespace ignored): any
    // other edit to the glue (arguments, conditions) also makes the mirror stale
    let mut toks = String::new();
    for line in body.lines() {
        let code = line.split("//").next().unwrap_or("");
        for t in code.split_whitespace() {
            toks.push_str(t);
            toks.push(' ');
        }
    }
    let digest = crate::engine::hash_of(&toks);
    if digest != GLUE_DIGEST {
        return Err(format!(
            "binding stale: the event-loop glue in {path} was edited (token digest {digest:#x}, mirror was written against {GLUE_DIGEST:#x})"
        ));
    }
    Ok(found)
}

/// Token digest of the event-loop region of src/sender/mod.rs the mirror was written against.
pub const GLUE_DIGEST: u64 = 0x5cbe_616d_b2a6_97f1;
