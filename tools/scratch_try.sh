#!/bin/bash
# tools/scratch_try.sh <patch.diff|-> <tier> <ID> [<ID>...]
# Experiments only (the recorded matrix uses tools/try_seed.sh on /repo): run checks against a scratch
# worktree of /repo (/tmp/evalwt) with the patch applied, from a scratch copy of the harness, so that
# /repo stays untouched while long runs are in progress. Evidence and replays go to /tmp/verif-scratch.
set -u
PATCH="$1"; TIER="$2"; shift 2
W=/tmp/evalwt; S=/tmp/verif-scratch
cd $W || exit 2
git checkout -q -- . ; git clean -fdq -e target
if [ "$PATCH" != "-" ]; then git apply "$PATCH" || { echo "patch does not apply"; exit 2; }; fi
mkdir -p $S/evidence $S/replays $S/target
rsync -a --delete --exclude target /verif/harness/ $S/harness/
cp /verif/known_findings.json $S/ 2>/dev/null
sed -i "s|path = \"/repo|path = \"$W|g" $S/harness/Cargo.toml
sed -i "s|target-dir = .*|target-dir = \"$S/target\"|" $S/harness/.cargo/config.toml
( cd $S/harness && cargo build --release --offline --quiet 2>&1 | grep -E "^error" -A8 | head -20 )
for id in "$@"; do
  out=$(cd $S && VERIF_ROOT=$S VERIF_REPO=$W $S/target/release/mc "$id" "$TIER" 2>&1); rc=$?
  echo "--- $id $TIER rc=$rc"
  echo "$out" | grep -E "^\s+\[|VIOLATION|MACHINERY|KNOWN|$TIER:" | cut -c1-300 | head -5
done
cd $W; git checkout -q -- .
