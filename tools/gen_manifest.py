#!/usr/bin/env python3
"""Regenerates /verif/MANIFEST.json from the table below (run after adding a check)."""
import json, os, sys
ROOT = os.path.dirname(os.path.dirname(os.path.abspath(__file__)))

CHECKS = {
 "C02": dict(
   engine="seqx",
   technique="exhaustive history exploration (all event sequences to depth d + all <=k-deviation sequences to depth D) of the real connection accounting code against a per-link set model",
   text="Every send/ACK/SRTLA-ACK/NAK/reset history over 1..4 links inside the stated depth and deviation bounds is executed on the real SrtlaConnection code through the real shell function process_connection_events, and after every event each link's packet log, in-flight count and score are compared with a BTreeSet reference model. Exhaustive within the bounds, so an accounting divergence that needs a specific multi-event history (e.g. a retransmission below the ACK high-water mark followed by a small-step ACK) cannot be missed inside them. The quick tier includes a three-link exploration (an SRTLA ACK arriving on a link that does not hold the number while two others do).",
   note="Trusted: the harness's set model (a few lines per event), rustc; sequence numbers never wrap the 31-bit space (the property's own quantifier); bounded history length.",
   design="3/C02"),
}

CHECKS.update({
 "C06": dict(
   engine="seqx",
   technique="exhaustive history exploration of the real window code (NAK, earned/global ACK, time-based recovery, resets) with an invariant and direction monitor",
   text="All event sequences up to depth d and all <=k-deviation sequences up to depth 200 (walking 20000 -> 1000 through 190 real NAKs and back) over the real SrtlaConnection / CongestionControl window code in both modes, from nine start windows reached by real NAK/ACK runs; after every event the monitor checks range, exact NAK/ACK step, direction, reset value and the fast-recovery entry/exit thresholds. Inductive-style invariants over long mixed histories are exactly what bounded exhaustive exploration with a per-step monitor decides.",
   note="Trusted: the monitor's own integer rules (taken from the statement), rustc. Extreme in-flight values and non-finite velocities are injected at the real CongestionControl entry points. Classic-mode 'no time-based recovery' is decided in C10's world (housekeeping arm).",
   design="3/C06"),
 "C15": dict(
   engine="prodx",
   technique="exhaustive product enumeration of byte strings through every real decoder, differential against an independent reference codec; builder round-trips",
   text="Every byte string of length 0..=2, every one of the 65536 type codes at every listed length with three tail patterns, every word list up to length 5/6 over an 8-word boundary alphabet as NAK / SRTLA-ACK / SRT-ACK payload, MTU-sized NAKs of over-wide ranges, and every builder over its argument alphabets are run through the real codec and compared with a reference decoder written from the property's layout table. The sweep runs in a child process with an address-space limit so an abort is reported as a violation.",
   note="Trusted: the reference decoder in the harness (about 80 lines, no shared code with srtla-protocol). Exhaustive for short inputs and all type codes; structured-exhaustive (alphabet-valued fields) beyond.",
   design="3/C15"),
 "C17": dict(
   engine="statex",
   technique="explicit-state BFS to a fixpoint over the real WeakLinkFilter::classify with canonical keys, independent verdict-history monitor",
   text="Breadth-first search over all tick-by-tick input histories (per-link alphabet of connectivity x bitrate on/just under each threshold x RTT class, links joining and leaving) of the real classifier for 1..4 links; the canonical key is the filter's private hysteresis memory plus the monitor's memory, all saturating, so the search runs until the frontier is empty (all reachable states). The monitor keeps its own verdict history and checks the two-tick delay rule, the 15-verdict/3-tick probation rule, the enter/leave thresholds and the disconnected/under-floor rule on every transition.",
   note="Trusted: the monitor, the canonicalisation argument (delay streak saturated at 2 because the code only compares it with >= 2), the choice of RTT classes that make the delay signal unambiguous. Tier arithmetic itself is left to the repository's unit tests.",
   design="3/C17"),
 "C16": dict(
   engine="seqx",
   technique="exhaustive history exploration of the real per-link CC controller (tick_all/tick) over a tick-input alphabet from a library of scripted start states, relational oracle on consecutive snapshots",
   text="All tick-input sequences to depth 2-3 over a 361-symbol alphabet (RTT x observed bitrate relative to the current target x byte/NAK deltas incl. counter resets x spacing, link vanishing), to depth 4-5 over 24 symbols, to depth 6-8 over a loss alphabet, and every history that uses at most two (depth 13-16) or three (depth 9) distinct symbols out of 40, each from up to eight start states reached by scripted real histories (seeded, at the ceiling, at the floor via drain re-entries, at the floor via back-off, loss latch engaged, 'not my loss' verdict held). The oracle relates every snapshot to its predecessor and the tick's inputs (bounds, the only two ways the cap may fall, 6%/2x growth, seed bound, latch timing).",
   note="Trusted: the relational monitor (integer arithmetic from the statement, +-1 rounding slack), the scripted start histories (their reachability is re-checked and reported on every run). Floating point: exact for the enumerated inputs only.",
   design="3/C16"),
 "C03": dict(
   engine="prodx",
   technique="exhaustive product enumeration of link-state combinations x configurations through the real select_connection_idx against an independent 'usable' predicate",
   text="The full per-link product (8 lifecycle states x 4 receive ages x 8 loads x 3 windows x 6 stall histories x 3 quality gates x 3 CC targets x 3 NAK histories = 124416 states) for one link, sub-libraries of 576/288, 40 and 24 states per link for 2, 3 and 4 links, each under every combination of mode, quality scoring, guard, four threshold settings, three timeouts and every previous index, are pushed through the real selector; whenever the harness's own usable predicate (registered, connected, not timed out by its own rule) holds for some link the result must be Some. Blackouts need a specific combination of gates across links, which is exactly what a product enumeration covers and example tests do not. Stall histories are scripted on a two-link pool and keep a stale gated flag when the pool shrinks; every state is also evaluated right after a call under a different liveness timeout (stale per-link copy); the returned link must itself be eligible.",
   note="Trusted: the usable predicate and time-out rule in the harness; link states are built from the public constructor plus test-internals fields (selector inputs), stall-latch / silence-pull state by running the real selector over a scripted earlier timeline. Multi-link products use sub-libraries, not the full product.",
   design="3/C03"),
 "C11": dict(
   engine="prodx",
   technique="exhaustive product enumeration through the real enhanced selector with an independent score and decision oracle, plus idempotence re-calls",
   text="Every state of a 388800..2.3M-state per-link product (incl. nine NAK ages/bursts, six RTTs, five CC target/measured ratios, connection age across the 30 s boundary), all pairs of a 729-state and a 40-state library, triples and quadruples of archetype libraries, under quality on/off, guard on/off, threshold settings and every previous index, are decided by the real selector and compared with an independent re-computation of base x phase weight x quality x soft cap x gate penalty and of the hysteresis rule (first maximum; keep the previous link unless it was skipped or best >= 1.10 x its score); each decision is re-run on the unchanged state and with its own result as previous link.",
   note="Trusted: the oracle's score/decision re-implementation (about 100 lines); the quality multiplier actually used is read back from the cache and only range-checked. Near-ties below 1e-9 relative are tolerated. States with a disconnected-but-schedulable link accept either reading of 'unconstrained exists' (judged by C03).",
   design="3/C11"),
 "C12": dict(
   engine="seqx",
   technique="exhaustive history exploration of the real selector with a relational oracle (state before = state after; decision with history = decision of a never-selected twin)",
   text="All histories up to depth 5-7 (and <=3-deviation histories to depth 12 for 4 links) of select / clock advance / load / earned proof / hearing / drain / NAK / disconnect / guard toggle / threshold change over 1..4 real links in both modes, from a fresh state and from scripted latched and silence-pulled states. On every select the full liveness/accounting projection of every link is compared before and after and against a twin that went through the same events but was never selected on; with the guard off all stall flags must be clear and the decision must equal the twin's. A fourth start state (latched with a NAK-lowered window) and a <=2/3-deviation exploration around the cycle 'proof, select, +1 s' carry a latched link through the whole rejoin dwell to its release (releases observed are counted; zero is a machinery error).",
   note="Trusted: the projection (Debug rendering of the public sub-structs plus the sorted packet log), the twin construction. Every state-changing event advances the clock by >= 50 ms so the quality cache cannot differ between link and twin.",
   design="3/C12"),
 "C13": dict(
   engine="seqx",
   technique="exhaustive timed-trace exploration of the real selector + real uplink receive path with an independent temporal monitor",
   text="All traces up to depth 4-7, all <=2..4-deviation traces to depth 12-14 with default select(1000), and all <=2..3-deviation traces to depth 26-40 around the pattern proof, select(250|500), proof, select, ... (which walks a complete rejoin dwell), from a fresh state and from a scripted latched state, for 2-3 links and up to 24 settings of RTT baseline x in-flight threshold x ceiling (incl. a ceiling below the floor). Proof, hearing, drain and REG_ERR events are datagrams pushed through the real handle_uplink_packet; the monitor keeps its own run-start, recomputes the window and judges every latch / pull edge and both counters. The run is rejected as vacuous unless rising and falling edges of both tiers were observed.",
   note="Trusted: the temporal monitor (about 80 lines). Thresholds, ceiling and RTT are fixed per trace. Scheduling decisions are direct calls of select_connection_idx.",
   design="3/C13"),
 "C01": dict(
   engine="seqx+world",
   technique="exhaustive event-sequence exploration of the mirrored event loop (real shell functions over loopback UDP, virtual clock) with a ledger / wire monitor",
   text="All event sequences to depth 4-6 over client datagrams (data, R-flagged, control, 1-byte, MTU, bursts of 16/33), flush ticks on the 15 ms grid, housekeeping, SRT/SRTLA ACKs, keepalive echoes, duplicate REG3, receiver-socket close/open and clock jumps, from up to nine scripted real start states (live, streaming, link stall-latched and gated, every link latched, timed out, classic, low/high batch regime), plus <=1..2-deviation sequences of depth 36-240 around the pattern 7 x data + flush (crossing the 1-in-100 probe cadence and the batch thresholds). After every event the bytes read from each receiver-side socket must be, in order, exactly the next pending accepted datagrams of that link; queues must be empty after each flush tick unless the link was reset; nothing is dropped while a usable link exists; extra copies only on gated links within the cadence. In addition the real BatchUdpSocket and send_all_datagrams are driven over an AF_UNIX datagram socketpair with a minimal send buffer for every batch size x datagram length x reader drain pattern, so that the kernel accepts only part of a sendmmsg batch (short send); the wire must still see every datagram once, in order, byte-identical. The thorough tier also runs the real run_sender_with_config in real time against a loopback receiver and compares its time-insensitive observables with the mirrored world (a disagreement is a machinery error).",
   note="Trusted: the ~60-line mirror of the select! arms (bound to the source by a call-order and token-digest fingerprint; a change to that glue yields exit 2), the ledger/wire monitor, Linux loopback FIFO delivery (end-of-event sentinel per socket, worker threads pinned to one CPU), pending socket errors captured into the state. Short sendmmsg results are not exercised.",
   design="3/C01"),
 "C04": dict(
   engine="seqx+world",
   technique="exhaustive event-sequence exploration of the mirrored event loop with a per-routing-decision eligibility oracle",
   text="All event sequences to depth 4-6 (and <=2-deviation sequences to depth 60) over data / R-flagged data / control datagrams, critical-window hints, NAKs, ACKs, keepalive echoes, REG_ERR, REG3, housekeeping, clock jumps and runtime toggles of mode / guard / quality, from ten scripted start states (live, streaming, link 0 or 1 stall-latched and gated, timed out and awaiting back-off, after REG_ERR; enhanced and classic; quality on/off), for 2 and 3 links. For every accepted datagram after establishment the link that received the unique copy must not be registering, timed out (own rule) or stall-gated at that instant. The override's choice depends on a cached quality value refreshed only for links the selector scores, i.e. on the past, which is why histories rather than states are enumerated. The selector eligibility product of C03 is evaluated as well: over every link-state pair/triple x previous index x configuration the link returned by the real selector is never registering, timed out or stall-gated.",
   note="Trusted: the glue mirror + fingerprint, the eligibility oracle (own time-out rule; the gate flag as recomputed by the real selector in that call). Pre-establishment forwarding is outside the statement.",
   design="3/C04"),
 "C07": dict(
   engine="statex+world",
   technique="explicit-state BFS with canonical keys over the handshake world (real handle_uplink_packet + handle_housekeeping), independent wire-level monitor",
   text="Breadth-first search with de-duplication over all orders of REG_NGP, REG2 (right id / other id / 257 bytes / 2 bytes), REG3, REG_ERR on any of 2-3 links and housekeeping passes at 1..5000 ms spacings (straddling the 1 s throttle, 2 s probe window, 4 s REG2/REG3 time-outs, 5 s grace), from a cold start and from an established session, to depth 5-14. Replies are not tied to requests. The monitor watches REG1/REG2 on the receiver-side sockets: never two group-creating REG1 outstanding on different links, no REG1 while a link is connected, adoption only from the REG1 link with a full-length id, exactly one broadcast round, ids carried, connected only on REG3, abandonment after 4 s (with reachability counters guarding against vacuity).",
   note="Trusted: the glue mirror + fingerprint, the canonicalisation (deadlines saturated just above the largest compared constant; fields without influence on handshake output dropped), the monitor. Depth-bounded, not a fixpoint.",
   design="3/C07"),
 "C09": dict(
   engine="prodx+world",
   technique="exhaustive product enumeration of datagrams x link states through the real uplink arm, reading the simulated client socket back",
   text="All 65536 type codes at the listed lengths and tails, all lengths 0..64 for 16 type codes x 4 tails, all tails over {00,7f,80,ff} up to 6 bytes, and crafted SRT ACK / NAK / SRTLA ACK / keepalive / handshake datagrams referring to the link state, injected on both links of up to nine scripted states (registering, warming, live idle, live with known numbers outstanding incl. a duplicate-probe number, awaiting a keepalive echo, stall-latched; client address known or not). Oracle from the statement: relay iff not SRTLA-internal, byte-identical, nothing without a client address, liveness stamp on every non-registration datagram, delivery-proof stamp iff earned SRTLA ACK or answered keepalive (all links compared). Runs in a child process with an address-space limit. A backlog exploration queues 0..=200 (thorough 0..=600) tagged non-internal datagrams on the uplink channel and lets repeated arms of each kind work them off through the real drain_packet_queue: every one must reach the client byte-identical, nothing else may, per link in queue order.",
   note="Trusted: glue mirror + fingerprint, the oracle. Reader tasks / recvmmsg batching are bypassed (datagrams are injected as UplinkPacket).",
   design="3/C09"),
 "C10": dict(
   engine="seqx+world",
   technique="exhaustive closed-loop history exploration of the mirrored event loop in lock-step with an independent re-implementation of the reference rules",
   text="All event sequences to depth 4-6 and <=1..2-deviation sequences to depth 80-200 around a closed loop (data, SRTLA ACKs, flush) over data / R-flagged / control datagrams, critical-window hints, bursts, SRTLA ACKs for own and other links' numbers, cumulative ACKs, NAKs (fresh and duplicate), keepalive echoes and housekeeping, in classic mode with the guard off (set through the real control dispatcher), for 2-4 links from three scripted start states. After every client datagram the link that received the unique copy must equal the reference choice (first maximum of window/(in-flight+queued+1) over usable links); after every uplink datagram and housekeeping pass every window must equal the reference windows (+29 / +1 / -100 / bounds / nothing on housekeeping).",
   note="Trusted: glue mirror + fingerprint, the ~60-line integer reference model. Which link a NAK is charged to is read off the loss counters (C05's subject).",
   design="3/C10"),
 "C05": dict(
   engine="seqx",
   technique="exhaustive history exploration of the real NAK attribution path (process_connection_events -> attribute_nak -> SequenceTracker / handle_nak) against an ownership model",
   text="All histories to depth 4-7 over routing a number to a link (tracked at queue time), duplicate probes (not tracked), per-link flushes (so 'tracked but not yet registered' is reachable), clock advances landing exactly on 4999/5000/5001 ms, NAKs of single numbers / a range through the real parser / an unknown number, cumulative and SRTLA ACKs, link removal and link reset, over numbers b, b+1, b+16384 (same ring slot) and b+2*16384, for 2-4 links. For every NAKed number the per-link (loss count, window, in-flight, burst counters, log) deltas must show at most one charged link, which held the number, with exactly (+1, -100 floored at 1000, -1), never a link other than the one the documented tracker rule remembers; in addition the real tracker's lookups must equal the documented validity rule after every event.",
   note="Trusted: the ownership model and the model of the tracker validity rule (same number, age <= 5000 ms, slot not overwritten, link present). The byte-level path is C09's, the real apply_connection_changes is C19's.",
   design="3/C05"),
 "C14": dict(
   engine="seqx+world",
   technique="exhaustive event-sequence exploration of the housekeeping arm with a cadence / frame-content monitor on the wire, plus exhaustive histories of the real RTT sample filter and smoother",
   text="(A) all sequences to depth 3-7 and <=1..2-deviation sequences to depth 12-90 (default: a pass every 1000 ms) over housekeeping passes at 990/1000/1010/2000 ms, keepalive echoes (timely, late > 10 s, future, zero timestamp, truncated), client bursts left queued, flush ticks, NAKs, duplicate REG3, receiver close and a 5 s clock jump, from established / live / timed-out start states for 2 and 4 links: never two consecutive passes without a keepalive on a connected, not-timed-out link; every keepalive frame is checked field by field against the link's pre-pass values. (B) all sequences to depth 6-8 over probe arming, echoes with ts in {now, now-1, now-20, now-10000, now-10001, now+5, 0}, truncated and over-long echoes, reset and a clock jump on the real tracker: a sample iff probe outstanding, >= 10 bytes, 0 < now-ts <= 10000; all sample sequences over {1,2,50,9999,10000}^<=8..10 through the real smoother stay finite and non-negative. The monitor keeps its own probe flag (a keepalive went out on the link since its last soft or full reset and since the last sample) and one start state is 'probe armed, then the link soft-reset by a failed threshold flush'.",
   note="Trusted: glue mirror + fingerprint; the monitors. 'Two housekeeping periods' is judged as 'two consecutive passes without a keepalive'.",
   design="3/C14"),
 "C08": dict(
   engine="seqx+world",
   technique="exhaustive fault-schedule exploration over virtual time in the mirrored event loop (all placements of <=k fault/repair events in a run of D one-second closed-loop steps) with a temporal monitor; full product of the pure back-off predicate",
   text="Every placement of at most 1-3 fault / repair events (per link: black hole, lost handshake replies, REG_ERR answers, socket send errors via a closed receiver port, socket re-creation errors via the UplinkBinder seam; globally: the receiver forgetting the group) in runs of 14-140 one-second steps (housekeeping pass, a fake receiver answering exactly what it saw on non-faulted links, client traffic or an idle sender, ACKs), for 2-4 links, connection timeouts 1000/5000/15000/60000 ms and both modes. The monitor checks teardown-only-for-cause against the timeout configured in DynamicConfig, the minimum and maximum spacing of reconnect attempts, the 30 s rejoin bound with clean accounting at the connecting step, and that survivors keep carrying the stream. The back-off predicate is swept for every failure count incl. u32::MAX. Fault alphabet also contains a flap (the path delivers until REG3 and goes dark before any echo or ACK) and a reduced long-outage alphabet explored to 100-150 s. Detection is judged on the harness's own delivery clock: a connected link that was handed nothing for the configured timeout, with a retry allowed by its back-off predicate, must be torn down by that housekeeping pass.",
   note="Trusted: glue mirror + fingerprint, the fake receiver (about 60 lines), the temporal monitor. 'Retried forever' is decided up to the horizon plus the pure arithmetic; the 30 s bound assumes local socket re-creation succeeds.",
   design="3/C08"),
 "C18": dict(
   engine="prodx+schedx",
   technique="exhaustive product of a line grammar and all command sequences to a depth through the real dispatch / dispatch_async against a reference model; preemption-bounded exhaustive schedule exploration of real threads on the real DynamicConfig",
   text="About 31000 lines (every string of length <= 2 over a 44-character JSON alphabet; the product jsonrpc x id x method x params x envelope incl. duplicate keys, array wrapping, trailing garbage, u64 extremes, unrepresentable numbers, deep nesting) from up to seven start configurations (incl. from_cli with out-of-range timeouts), each through the stdin entry point and the socket entry point without and with a subscription context, judged by a reference model that uses the generator's own shape tag; all sequences of depth 4-5 over 14 commands with the configuration compared with a six-field model after every line; and every schedule with at most 2-3 preemptions of 2 setter threads (direct setters and lines through the dispatcher) plus 1-2 snapshot readers, each atomic access of DynamicConfig being a switch point. The sweep runs in a child process. The grammar also contains every client-controlled string position (method, mode, id, version, parameter key, ill-typed value) x byte lengths 0..=160 x a 1/2/3/4-byte character at the end of the prefix.",
   note="Trusted: serde_json as JSON parser, the reference model (about 80 lines), the baton scheduler. Sequentially consistent schedules only; non-UTF-8 input never reaches dispatch(&str); the entry-point read loops are not explored.",
   design="3/C18"),
 "C19": dict(
   engine="prodx+seqx+world",
   technique="exhaustive product of file contents through the real reload analyser against an independent line splitter; exhaustive reload-sequence exploration through the real apply_connection_changes in the shell world",
   text="Every file of up to 4-5 lines over an 11-line alphabet (blank, whitespace, IPv4, padded IPv4, duplicate, IPv6, garbage, out-of-range octet, address:port, non-ASCII digits) x {LF, CRLF} x {final newline or not}, plus a missing and a real file, against an independent splitter and the refusal rules; and all sequences to depth 2-5 over client datagrams, flush ticks, NAKs and reloads (all 31 non-empty subsets of a five-address loopback universe plus reordered and duplicated lists; applied directly and through the housekeeping arm) from a streaming 3-link world and one with a stall-latched link. After every apply: survivors keep conn_id, the same socket object and (direct apply) a bit-identical full state; exactly the unlisted links are gone with their I/O entry and attribution records; new addresses appear once, fresh; the previous routing choice is forgotten iff a link was removed.",
   note="Trusted: the independent splitter (std IpAddr parser), glue mirror + fingerprint, the projection. IPv4 loopback universe only for the world part.",
   design="3/C19"),
 "C20": dict(
   engine="schedx",
   technique="preemption-bounded exhaustive schedule exploration of real async tasks on the real SubscriptionHub under a hand-rolled single-threaded executor",
   text="Seven harnesses (subscribe / receive / unsubscribe / close / publish by 2-4 tasks, two topics, subscribers that never read or never run again) x channel capacities 1 and 2, every schedule with at most 2 (quick) / 3 (thorough) preemptions, iterated 0..bound, every execution run to completion. Switch points: every genuine Pending of tokio's Mutex / mpsc plus cfg-guarded yield points before and right after every lock acquisition, after the id counter, between entries of the publish loop while the lock is held, and after the loop. Judged on the recorded invoke/return/receive history: no deadlock even with frozen subscribers, topic / id / order / at-most-once / nothing-after-unsubscribe / pruning. A harness with a single observable outcome is rejected as vacuous. Harness H8 has two reading subscribers and two single-shot publishers (agreement on order); a subscriber that empties its channel right after unsubscribe returned must find it empty at the end of the execution.",
   note="Trusted: the executor and decision engine (about 150 lines), the history oracle. One executor thread with explicit yield points stands in for the multi-threaded runtime (sequentially consistent interleavings of the marked accesses); tokio's internals are trusted.",
   design="3/C20"),
})

NOT_YET = {
}

def main():
    props = [json.loads(l) for l in open(os.path.join(ROOT, "properties.jsonl"))]
    checks = []
    na = []
    for p in props:
        pid = p["id"]
        if pid in CHECKS:
            c = CHECKS[pid]
            checks.append({
                "property_id": pid,
                "quick_cmd": f"./check {pid} quick",
                "thorough_cmd": f"./check {pid} thorough",
                "evidence_file": f"/verif/evidence/{pid}.json",
                "replay_cmd_template": f"./check {pid} --replay {{path}}",
                "engine": c["engine"],
                "level_claimed": {"category": "model_checking", "text": c["text"], "design_ref": c["design"]},
                "level_note": c["note"],
                "technique": c["technique"],
            })
        else:
            na.append({"property_id": pid, "reason": NOT_YET.get(pid, "no check registered yet: the checker for this property has not been built in this round (see DESIGN.md section 9 for the build order); it is not claimed")})
    m = {
        "version": 1,
        "setup_cmd": "cd /verif/harness && CARGO_NET_OFFLINE=true CARGO_TARGET_DIR=/verif/target cargo build --release --offline",
        "hooks": {
            "guard": "verif-hooks",
            "enable": "cargo feature verif-hooks on srtla-core and srtla_send (plus test-internals), enabled by /verif/harness/Cargo.toml; the harness path-depends on /repo so every check rebuilds from /repo's working tree",
            "baseline_off_cmd": "cd /repo && cargo nextest run --workspace --no-fail-fast --tool-config-file pb:/w/lib/nextest.toml --profile pb --test-threads 8 --offline || cargo test --workspace --no-fail-fast --offline",
            "source_commits": ["00ce485", "84a2d81"],
            "add_only": True,
        },
        "engines": [
            {"name": "seqx", "path": "/verif/harness/src/engine.rs", "serves_properties": sorted(k for k,v in CHECKS.items() if "seqx" in v["engine"]), "kind_free_text": "stateless exhaustive history exploration of the real code: full(d) = all event sequences up to depth d, dev(k,D) = all sequences with at most k deviations from a default symbol up to depth D; oracle evaluated after every step; 16 worker threads"},
            {"name": "statex", "path": "/verif/harness/src/engine.rs", "serves_properties": sorted(k for k,v in CHECKS.items() if "statex" in v["engine"]), "kind_free_text": "explicit-state breadth-first search over the real code with canonical-key de-duplication (128-bit fingerprints), to a fixpoint or depth bound"},
            {"name": "prodx", "path": "/verif/harness/src/props", "serves_properties": sorted(k for k,v in CHECKS.items() if "prodx" in v["engine"]), "kind_free_text": "exhaustive product enumeration of inputs / link-state combinations through the real decision functions against an independent oracle"},
            {"name": "schedx", "path": "/verif/harness/src/sched.rs", "serves_properties": sorted(k for k,v in CHECKS.items() if "schedx" in v["engine"]), "kind_free_text": "hand-rolled stateless schedule explorer (preemption-bounded DFS) over real async tasks / real threads with cfg-guarded switch points"},
        ],
        "checks": checks,
        "not_applicable": na,
        "notes": "All checks: exit 0 held / 1 VIOLATION / 2 machinery error. Known findings: /verif/known_findings.json. Design: /verif/DESIGN.md.",
    }
    json.dump(m, open(os.path.join(ROOT, "MANIFEST.json"), "w"), indent=1)
    print("checks:", [c["property_id"] for c in checks], "not_applicable:", len(na))

if __name__ == "__main__":
    main()
