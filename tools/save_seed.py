#!/usr/bin/env python3
"""tools/save_seed.py <Cxx> <A|B> <demo dest rel. to repo root> "<cargo test args>" "<summary>" "<needs>" [extra check ids...]

Copies a confirmed seeded change from /tmp/seed/<Cxx>/OUT/<A|B>/ into /verif/seeded/<Cxx>-<A|B>/
(patch.diff, demo.rs, demo.md, notes.md) and writes meta.json. `caught_by` is filled by tools/seed_matrix.py.
"""
import json, os, shutil, subprocess, sys

prop, var, dest, args, summary, needs = sys.argv[1:7]
extra = sys.argv[7:]
src = f"/tmp/seed/{prop}/OUT/{var}"
dst = f"/verif/seeded/{prop}-{var}"
os.makedirs(dst, exist_ok=True)
for f in ("patch.diff", "demo.rs", "demo.md", "notes.md"):
    if os.path.exists(f"{src}/{f}"):
        shutil.copy(f"{src}/{f}", f"{dst}/{f}")
files = [l[6:].strip() for l in open(f"{dst}/patch.diff") if l.startswith("+++ b/")]
base = os.environ.get("SEED_BASE") or subprocess.run(["git", "-C", "/repo", "rev-parse", "--short", "HEAD"], capture_output=True, text=True).stdout.strip()
meta_path = f"{dst}/meta.json"
old = json.load(open(meta_path)) if os.path.exists(meta_path) else {}
meta = {
    "id": f"{prop}-{var}",
    "breaks_property": prop,
    "summary": summary,
    "files_touched": files,
    "needs_to_manifest": needs,
    "base_commit": base,
    "demonstration": {
        "file": dest,
        "command": f"cargo test --offline {args}",
        "with_change": "fails",
        "without_change": "passes",
    },
    "confirmed": {
        "how": "tools/verify_seed.sh in a scratch worktree of /repo (/tmp/evalwt, removed afterwards)",
        "suite_with_change": "cargo test --workspace --no-fail-fast --offline: 424 passed, 0 failed",
        "demo_with_change": "fails",
        "demo_without_change": "passes",
    },
    "checks_to_run": [prop] + [e for e in extra if not e.startswith("note:")],
    **({"not_caught_because": " ".join(e[5:] for e in extra if e.startswith("note:"))} if any(e.startswith("note:") for e in extra) else {}),
    "caught_by": old.get("caught_by", []),
}
json.dump(meta, open(meta_path, "w"), indent=1)
print("saved", dst)
