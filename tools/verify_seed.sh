#!/bin/bash
# tools/verify_seed.sh <seed OUT dir e.g. /tmp/seed/C02/OUT/A> <demo dest path rel. to worktree> "<demo cargo test args>" [mod-line-file mod-line]
# In the scratch worktree /tmp/evalwt: (1) patch applies, builds, whole suite passes; (2) demo fails with the patch; (3) demo passes without.
set -u
D="$1"; DEST="$2"; ARGS="$3"; MODFILE="${4:-}"; MODLINE="${5:-}"
W=${EVALWT:-/tmp/evalwt}
cd $W || exit 2
git checkout -q -- . ; git clean -fdq -e target
git apply "$D/patch.diff" || { echo "PATCH DOES NOT APPLY"; exit 1; }
echo "== suite with patch"
CARGO_NET_OFFLINE=true cargo test --workspace --no-fail-fast --offline -j 10 2>&1 | grep -E "^test result|FAILED|^error" | awk '/test result/{p+=$4; f+=$6} !/test result/{print} END {print "passed",p,"failed",f}'
mkdir -p "$(dirname "$DEST")"; cp "$D/demo.rs" "$DEST"
if [ -n "$MODFILE" ]; then echo "$MODLINE" >> "$MODFILE"; fi
echo "== demo with patch (expect failure)"
CARGO_NET_OFFLINE=true cargo test --offline -j 10 $ARGS 2>&1 | grep -E "^test result|^test .*FAILED|^error" | head -5
git checkout -q -- . 
cp "$D/demo.rs" "$DEST"
if [ -n "$MODFILE" ]; then echo "$MODLINE" >> "$MODFILE"; fi
echo "== demo without patch (expect pass)"
CARGO_NET_OFFLINE=true cargo test --offline -j 10 $ARGS 2>&1 | grep -E "^test result|^test .*FAILED|^error" | head -5
git checkout -q -- . ; git clean -fdq -e target
