#!/bin/bash
# tools/try_seed.sh <patch.diff> <tier> <ID> [<ID>...]  : apply a seeded change to /repo, run checks, undo.
set -u
PATCH="$1"; TIER="$2"; shift 2
cd /repo || exit 2
if [ -n "$(git status --porcelain --untracked-files=no)" ]; then echo "/repo not clean"; exit 2; fi
git apply "$PATCH" || { echo "patch does not apply"; exit 2; }
trap 'git -C /repo checkout -- . ' EXIT
for id in "$@"; do
  out=$(/verif/check "$id" "$TIER" 2>&1); rc=$?
  echo "--- $id $TIER rc=$rc"
  echo "$out" | grep -E "^\s+\[|VIOLATION|MACHINERY|KNOWN" | cut -c1-260 | head -4
done
